"""C13 - no operation panics."""
import vfx
from props import hist, histprop

CONFIGS = hist.CONFIGS
HOSTILE = ["", "/", ".", "..", "../..", "a/", "//", "a//b", "...", "é/../日", "a/./../b", "x" * 300]
I64MAX = 9223372036854775807
I64MIN = -9223372036854775808


def project(kind, case, step, op, line):
    """only panics matter here (the rest is the business of the other properties)"""
    if line is None:
        return None
    return "panic" if line.startswith("panic") else "no-panic"


def finish(c, g):
    import random
    rng = random.Random(len(c.lines) * 7 + 1)
    t = g.target
    # calls on the root and with odd arguments, of every kind
    for _ in range(10):
        a = rng.choice(HOSTILE)
        k = rng.choice(["exists", "metadata", "readdir", "createdir", "createdirall", "removefile", "removedir", "isfile",
                        "isdir", "readtostring", "walkdir", "probe", "asstr", "filename", "extension", "copyfile", "movefile",
                        "setmtime", "openfile", "appendfile", "createfile"])
        if len(a) > 1 and a.endswith("/") and k in ("openfile", "appendfile", "createfile"):
            k = "exists"
        if k in ("copyfile", "movefile"):
            c.op(k, vfx.ps(t, a), vfx.ps(t, rng.choice(HOSTILE + ["q"])))
        elif k == "setmtime":
            c.op(k, vfx.ps(t, a), rng.choice([0, -1, 10 ** 18]))
        elif k in ("openfile", "appendfile", "createfile"):
            i = c.op(k, vfx.ps(t, a))
            c.op("hdrop", i)
        elif k == "removedir" and a in ("", "/", ".", "..", "../..", "//"):
            continue
        else:
            c.op(k, vfx.ps(t, a))
    # handles used after their file (and its directory) were removed, reads and seeks at any offset
    c.op("createdirall", vfx.ps(t, "hd"))
    w = c.op("createfile", vfx.ps(t, "hd/f"))
    c.op("hwrite", w, vfx.hexs(b"0123456789"))
    c.op("hflush", w)
    r = c.op("openfile", vfx.ps(t, "hd/f"))
    c.op("removefile", vfx.ps(t, "hd/f"))
    c.op("removedir", vfx.ps(t, "hd"))
    for _ in range(6):
        x = rng.random()
        if x < 0.4:
            c.op("hread", r, rng.choice([0, 1, 3, 100]))
        elif x < 0.8:
            wh = rng.choice(["s", "c", "e"])
            off = rng.choice([0, 5, 10, 11, 2 ** 40]) if wh == "s" else rng.choice([0, -1, -11, 1, I64MIN, -5] + ([] if g.has_phys else [I64MAX]))
            c.op("hseek", r, wh, off)
        else:
            c.op("hwrite", w, vfx.hexs(rng.choice([b"", b"zz"])))
    c.op("hdrop", w)
    c.op("hdrop", r)
    c.op("snap", t)
    # a walk whose entries vanish behind the iterator's back (after 0, 1, 2 items): the items whose lookup then fails are
    # error items, and the walk goes on - sync iterator and async stream alike
    c.op("createdirall", vfx.ps(t, "wk/a/b"))
    for n in ("wk/a/f1", "wk/a/f2", "wk/z1", "wk/z2", "wk/a/b/deep"):
        hist.write_file(c, t, n, b"w")
    for k, victim in ((0, "wk/a/f1"), (1, "wk/z1"), (2, "wk/a/b"), (1, "wk/a")):
        c.op("walkrm", vfx.ps(t, "wk"), k, vfx.ps(t, victim))
    c.op("walkdir", "%d:" % t)
    if g.kind == "phys":
        # hostile directory content made behind the crate's back
        c.op("xrawname", 0, "66ff6f")          # a name that is not UTF-8
        c.op("xsymlink", 0, vfx.hexs("dangling"), vfx.hexs("/nonexistent/target"))
        c.op("xsymlink", 0, vfx.hexs("loop"), vfx.hexs("loop"))
        for k in ("readdir", "walkdir", "probe"):
            c.op(k, "%d:" % t)
        for n in ("dangling", "loop"):
            for k in ("createdir", "exists", "metadata", "probe", "removefile", "createdirall", "readtostring"):
                c.op(k, vfx.ps(t, n))


def special_file_cases():
    """directory entries that are neither regular files nor directories - a Unix socket, a character device reached
    through a symlink - found on disk by a PhysicalFS, directly, below an altroot and in either layer of an overlay:
    every call on them, listings, walks and whole-directory operations around them"""
    import random
    rng = random.Random(83)
    cases = []
    for kind, tmp, sub in (("phys", 0, ""), ("alt_phys", 0, None), ("ovl_pp", 0, ""), ("ovl_pp", 1, "")):
        c = vfx.Case("c13_special_%s_%d" % (kind, tmp))
        g = hist.build_config(c, kind, rng)
        c.cfg = g
        t = g.target
        pre = (g.alt_under[1][1:] + "/") if g.alt_under and g.alt_under[1] else ""
        c.op("createdirall", vfx.ps(t, "d"))
        hist.write_file(c, t, "d/f", b"plain")
        c.op("xsocket", tmp, vfx.hexs(pre + "sock"))
        c.op("xsocket", tmp, vfx.hexs(pre + "d/sock"))
        c.op("xsymlink", tmp, vfx.hexs(pre + "null"), vfx.hexs("/dev/null"))
        for n in ("sock", "d/sock", "null", "sock/below", "null/below"):
            for k in ("exists", "metadata", "isfile", "isdir", "probe", "readdir", "readtostring", "createdir", "createdirall", "walkdir"):
                c.op(k, vfx.ps(t, n))
            h = c.op("openfile", vfx.ps(t, n)); c.op("hread", h, 4); c.op("hdrop", h)
            c.op("setmtime", vfx.ps(t, n), 12345)
            c.op("copyfile", vfx.ps(t, n), vfx.ps(t, "copy_of"))
        for k in ("readdir", "walkdir", "probe"):
            c.op(k, "%d:" % t)
            c.op(k, vfx.ps(t, "d"))
        c.op("copydir", vfx.ps(t, "d"), vfx.ps(t, "d2"))
        c.op("movedir", vfx.ps(t, "d"), vfx.ps(t, "d3"))
        c.op("removefile", vfx.ps(t, "sock"))
        c.op("removedir", vfx.ps(t, "null"))
        c.op("removedirall", vfx.ps(t, "d3"))
        c.op("removedirall", vfx.ps(t, "d"))
        cases.append(c)
    return cases


def corpus_cases():
    """every operation on every kind of target (wrong types, the root, below files) and handles that outlive their file"""
    kinds = ["mem", "phys", "alt_mem", "ovl_mm", "ovl_pp", "ovl_sub"]
    return hist.matrix_cases("c13", kinds, root_removal=True) + hist.stale_handle_cases("c13", kinds) + special_file_cases()


P = histprop.HistProp(
    "C13", CONFIGS, typed=False, corpus_cases=corpus_cases, project=project, quick_cases=8, thorough_cases=100, nops=(8, 16), finish=finish,
    builds=(False, True), hostile=0.3, allow_big=False,
    rule=("untyped histories on all 15 configurations followed by calls of every kind on the root and on odd join arguments "
          "('', '/', '.', '..', 'a/', '//', '...', multi-byte, 300 characters), by reads/seeks/writes on handles whose file "
          "and directory were removed (offsets 0, +-1, len, len+1, i64::MIN/MAX, 2^40, zero-length buffers), and on "
          "PhysicalFS by listings and calls over a non-UTF-8 file name, a dangling symlink and a symlink loop created behind "
          "the crate's back, by every call on and around a Unix socket and a character device (through a symlink) found in a served directory, and by walks whose entries are removed while the walk is under way; every call runs under catch_unwind in a debug and in a release build; a case counts as "
          "non-trivial when it has at least 3 successful and 1 failing call"),
    assumptions=["copy_dir/move_dir into the source's own subtree is excluded (documented non-termination)",
                 "writes at positions beyond 100 kB are outside the correspondence with the model (its cursor has unbounded memory); writes after seeks to 2^48 .. u64::MAX are checked on the implementation alone: an error, no panic, no abort",
                 "RwLock poisoning is excluded (needs an earlier panic)"])
generate, corpus, known = P.generate, P.corpus, P.known
ASSUMPTIONS, BUILDS = P.ASSUMPTIONS, P.BUILDS
RULE = P.RULE + ("; writes through MemoryFS write handles (create and append, directly and through altroot / overlay) after seeks to u64::MAX, 2^63, "
                 "i64::MAX, 2^62, 2^48: an error and a handle that stays usable, no panic, no abort (one process per case, debug and release)"
                 "; EmbeddedFS under the adapters (lower layer of two- and three-layer overlays, below an altroot): appends that copy "
                 "embedded files up, setters, removals, walks and copies; EmbeddedFS itself: every observer and mutator on every path of the C18 universe (near misses and backslash "
                 "aliases of embedded paths included) and read-handle scripts, debug and release; the ASYNC API: the same cases through the async port on a current-thread tokio runtime and under "
                 "futures::executor::block_on, i.e. with NO tokio runtime entered (code that reaches for one must degrade to "
                 "an error): any panic is a violation")


def async_panics(cases):
    """the async port under two executors: only panics are looked at here (behaviour is C15's subject)"""
    import os
    import subprocess
    from concurrent.futures import ThreadPoolExecutor
    exe = os.path.join(vfx.HARNESS, "target", "debug", "vfsx")
    text = "".join(c.text() for c in cases)
    pieces, _ = vfx.split_cases(text, vfx.NPROC)
    jobs = []
    for i, pc in enumerate(pieces):
        f = os.path.join(vfx.WORK, "c13a_%d.cases" % i)
        open(f, "w").write(pc)
        jobs += [("tokio", [exe, "--async", f]), ("no-tokio", [exe, "--async", f, "--no-tokio"])]

    def run(job):
        r = subprocess.run(job[1], stdout=subprocess.PIPE, stderr=subprocess.PIPE, text=True, timeout=3000)
        return job[0], r.returncode, r.stdout, r.stderr
    with ThreadPoolExecutor(max_workers=vfx.NPROC) as ex:
        res = list(ex.map(run, jobs))
    by = {c.name: c for c in cases}
    out, n = [], 0
    for mode, rc, so, se in res:
        if rc != 0:
            out.append({"case": "async-harness", "case_text": "", "step": None, "op": mode, "model": None, "impl": se[-800:],
                        "violates": True, "note": "the async harness (%s executor) died: an uncaught panic or abort" % mode})
            continue
        for line in so.splitlines():
            parts = line.split(" ", 3)
            if len(parts) == 4 and parts[0] == "r":
                n += 1
                if parts[3].startswith("panic") and not any(x["case"] == parts[1] for x in out):
                    c = by.get(parts[1])
                    out.append({"case": parts[1], "case_text": c.text() if c else "", "step": int(parts[2]),
                                "op": (c.ops[int(parts[2])] if c else "?") + "  [async, %s executor]" % mode, "model": "no panic",
                                "impl": parts[3], "violates": True, "note": "panic in the async API (%s executor)" % mode})
    for i in range(len(pieces)):
        os.remove(os.path.join(vfx.WORK, "c13a_%d.cases" % i))
    return out, n


def embedded_panics(tier):
    """EmbeddedFS: every observer on every path of the C18 universe (embedded files, implied directories, the root,
    near misses, names with a backslash where an embedded path has a separator), read handles, every mutator - no panic,
    in a debug and in a release build"""
    import random
    from props import c18
    cases = c18.gen_cases(random.Random(13), "quick")
    # an EmbeddedFS UNDER the adapters: as the lower layer of an overlay (copy-up of embedded files, whose metadata has no
    # access time), below an altroot, and both
    files = [r for r, _ in c18.fixture_files()]
    for shape in ("ovl", "alt_ovl", "ovl3"):
        c = vfx.Case("c13_emb_%s" % shape)
        for rel, data in c18.fixture_files():
            c.embfile(rel, data)
        c.base("emb"); c.base("mem"); c.base("mem")
        e = c.fs("base", 0); m = c.fs("base", 1); m2 = c.fs("base", 2)
        if shape == "ovl":
            t = c.fs("ovl", 2, m, "-", e, "-")
        elif shape == "ovl3":
            t = c.fs("ovl", 3, m, "-", m2, "-", e, "-")
        else:
            a = c.fs("alt", e, vfx.hexs("/a"))
            t = c.fs("ovl", 2, m, "-", a, "-")
        names = [f for f in files if shape != "alt_ovl" or f.startswith("a/")]
        names = [f[2:] if shape == "alt_ovl" else f for f in names][:6]
        for f in names:
            h = c.op("appendfile", vfx.ps(t, f)); c.op("hwrite", h, vfx.hexs(b"+")); c.op("hdrop", h)
            c.op("readtostring", vfx.ps(t, f)); c.op("metadata", vfx.ps(t, f))
            h = c.op("appendfile", vfx.ps(t, f)); c.op("hdrop", h)
            c.op("setmtime", vfx.ps(t, f), 12345); c.op("setatime", vfx.ps(t, f), 12345)
        d = names[0].rsplit("/", 1)[0] if "/" in names[0] else ""
        for k in ("readdir", "walkdir", "probe"):
            c.op(k, "%d:" % t)
        c.op("removefile", vfx.ps(t, names[-1])); c.op("createdirall", vfx.ps(t, "new/dir")); c.op("copydir", vfx.ps(t, "new"), vfx.ps(t, "new2"))
        c.op("removedirall", vfx.ps(t, names[1].split("/")[0])); c.op("walkdir", "%d:" % t); c.op("snap", t)
        cases.append(c)
    by = {c.name: c for c in cases}
    text = "".join(c.text() for c in cases)
    out, n = [], 0
    for rel in (False, True):
        mlines, ilines = vfx.run_both(text, "c13e%d" % rel, release=rel)
        for (kind, cname, step), line in sorted(ilines.items(), key=lambda kv: (kv[0][1], kv[0][2])):
            if kind != "r":
                continue
            n += 1
            if line.startswith("panic") and not any(x["case"] == cname for x in out):
                c = by[cname]
                out.append({"case": cname, "case_text": c.text(), "step": step, "op": c.ops[step] + ("  [release]" if rel else "  [debug]"),
                            "model": mlines.get(("r", cname, step)), "impl": line, "violates": True,
                            "note": "panic on an EmbeddedFS at `%s`" % c.ops[step][:80]})
    return out, n


def huge_write_panics():
    """writes through a MemoryFS write handle after a seek FAR past the end (u64::MAX, 2^63, i64::MAX, 2^62, 2^48: more than
    a buffer can hold, or than can be allocated): the handle must answer with an error, not panic ("capacity overflow")
    and not abort the process; it stays usable afterwards.  Implementation only: the model's cursor has unbounded memory
    (DESIGN 18), so these positions are outside the correspondence"""
    import os
    import subprocess
    rng = __import__("random").Random(89)
    cases = []
    for kind in ("mem", "alt_mem", "ovl_mm", "ovl_sub"):
        for j, off in enumerate((18446744073709551615, 9223372036854775808, 9223372036854775807, 4611686018427387904, 281474976710656)):
            for opener in ("createfile", "appendfile"):
                c = vfx.Case("c13_huge_%s_%d_%s" % (kind, j, opener))
                g = hist.build_config(c, kind, rng)
                c.cfg = g
                t = g.target
                hist.write_file(c, t, "f", b"abc")
                h = c.op(opener, vfx.ps(t, "f"))
                c.op("hwrite", h, vfx.hexs(b"xy"))
                c.op("hseek", h, "s", off)
                c.op("hwrite", h, vfx.hexs(b"Z"))
                c.op("hwrite", h, "-")
                c.op("hflush", h)
                c.op("hseek", h, "s", 1)
                c.op("hwrite", h, vfx.hexs(b"Q"))
                c.op("hdrop", h)
                c.op("readtostring", vfx.ps(t, "f"))
                cases.append(c)
    out, n = [], 0
    for rel in (False, True):
        exe = os.path.join(vfx.HARNESS, "target", "release" if rel else "debug", "vfsx")
        for c in cases:       # one process per case: an abort (failed allocation) must not hide the other cases
            f = os.path.join(vfx.WORK, "c13huge.cases")
            os.makedirs(vfx.WORK, exist_ok=True)
            open(f, "w").write(c.text())
            r = subprocess.run([exe, f], stdout=subprocess.PIPE, stderr=subprocess.PIPE, text=True, timeout=300)
            lines = [l.split(" ", 3) for l in r.stdout.splitlines() if l.startswith("r ")]
            n += len(lines)
            bad = None
            if r.returncode != 0 or len(lines) < c.nops:
                bad = (len(lines), "the process died (rc=%d): %s" % (r.returncode, r.stderr[-200:]))
            else:
                for parts in lines:
                    if parts[3].startswith("panic"):
                        bad = (int(parts[2]), "panic")
                        break
            if bad:
                step = min(bad[0], c.nops - 1)
                out.append({"case": c.name, "case_text": c.text(), "step": step, "op": c.ops[step] + ("  [release]" if rel else "  [debug]"),
                            "model": None, "impl": bad[1], "violates": True,
                            "note": "a write far past the end of a MemoryFS write handle: %s at `%s`" % (bad[1][:120], c.ops[step][:60])})
    try:
        os.remove(os.path.join(vfx.WORK, "c13huge.cases"))
    except OSError:
        pass
    return out, n


def run_and_compare(cases, tier):
    res = P.run_and_compare(cases, tier)
    edis, en = embedded_panics(tier)
    res["disagreements"] += edis
    res["stats"].setdefault("distribution", {})["embedded_calls_checked_for_panics"] = en
    hdis, hn = huge_write_panics()
    res["disagreements"] += hdis
    res["stats"].setdefault("distribution", {})["calls_around_writes_far_past_the_end"] = hn
    dis, n = async_panics([c for c in cases if getattr(c, "cfg", None) is not None])
    res["disagreements"] += dis
    res["stats"]["evaluations"] = res["stats"].get("evaluations", 0) + n
    res["stats"].setdefault("distribution", {})["async_calls_checked_for_panics"] = n
    return res
