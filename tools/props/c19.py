"""C19 - timestamps round-trip and are independent of content."""
from props import hist, histprop

CONFIGS = ["mem", "phys", "alt_mem", "alt_phys", "ovl_mm", "ovl_pp", "ovl_sub", "ovl_alt", "alt_alt"]


def project(kind, case, step, op, line):
    """metadata records with their timestamps; outcomes of the setters; bytes and lengths"""
    if line is None:
        return None
    return histprop.abstract_errors(line)


MIX = ["settime"] * 8 + ["createfile"] * 3 + ["append"] * 3 + ["createdir"] * 2 + ["metadata"] * 2 + ["copyfile", "removefile"]
P = histprop.HistProp(
    "C19", CONFIGS, typed=True, mix=MIX, with_times=True, project=project, quick_cases=8, thorough_cases=100,
    nops=(10, 20), allow_big=False,
    rule=("histories mixing set_creation/modification/access_time (values: epoch, +-10^9 s, sub-second parts, 1 ns, "
          "year 2100) with write sessions, appends and copies on files and directories; every metadata record of every "
          "snapshot is compared including its three timestamps (explicitly set values exactly, values of now() as 'auto'); "
          "on PhysicalFS the access time is compared only in the metadata() directly after set_access_time"),
    assumptions=["host filesystem keeps nanosecond timestamps in the generated range"])
generate, corpus, run_and_compare, known = P.generate, P.corpus, P.run_and_compare, P.known
RULE, ASSUMPTIONS, BUILDS = P.RULE, P.ASSUMPTIONS, P.BUILDS
