"""C19 - timestamps round-trip and are independent of content."""
import random
import vfx
from props import hist, histprop, common

CONFIGS = ["mem", "phys", "alt_mem", "alt_phys", "ovl_mm", "ovl_pp", "ovl_sub", "ovl_alt", "alt_alt"]


def project(kind, case, step, op, line):
    """metadata records with their timestamps; outcomes of the setters; bytes and lengths"""
    if line is None:
        return None
    if op.startswith("setsame"):
        return "-"          # judged by same_oracle on the implementation's transcript (the model has no such operation)
    return histprop.abstract_errors(line)


def corpus_cases():
    """directed scripts: content changes of every kind (first write into an empty file, truncation, append, overwrite
    while a handle is open, copy over) must leave explicitly set timestamps alone"""
    rng = random.Random(19)
    T1, T2, T3 = hist.TIMES[1], hist.TIMES[4], hist.TIMES[5]
    cases = []
    for kind in CONFIGS:
        for variant in range(5):
            c = vfx.Case("c19_direct_%s_%d" % (kind, variant))
            g = hist.build_config(c, kind, rng)
            c.cfg = g
            t = g.target
            f = vfx.ps(t, "f")
            if variant == 0:      # empty file, stamp, first bytes arrive through an append handle
                w = c.op("createfile", f); c.op("hdrop", w)
                for k, v in (("setctime", T1), ("setmtime", T2), ("setatime", T3)):
                    c.op(k, f, v)
                c.op("metadata", f)
                a = c.op("appendfile", f); c.op("hwrite", a, vfx.hexs(b"first bytes")); c.op("hflush", a)
                c.op("metadata", f); c.op("hdrop", a); c.op("metadata", f)
            elif variant == 1:    # stamp while the creating handle is still open, then write and drop
                w = c.op("createfile", f)
                c.op("setctime", f, T1); c.op("setatime", f, T3)
                c.op("hwrite", w, vfx.hexs(b"abc")); c.op("hdrop", w); c.op("metadata", f)
                c.op("setctime", f, T2)
                a = c.op("appendfile", f); c.op("hwrite", a, vfx.hexs(b"def")); c.op("hdrop", a); c.op("metadata", f)
            elif variant == 2:    # truncation by create_file over an existing stamped file
                hist.write_file(c, t, "f", b"old content")
                c.op("setctime", f, T1); c.op("setmtime", f, T2); c.op("setatime", f, T3); c.op("metadata", f)
                w = c.op("createfile", f); c.op("metadata", f); c.op("hwrite", w, vfx.hexs(b"new")); c.op("hdrop", w)
                c.op("metadata", f)
            elif variant == 4:    # every order of two different setters: the second must leave the first one's field alone
                hist.write_file(c, t, "f", b"content")
                c.op("createdir", vfx.ps(t, "d"))
                for tgt in (f, vfx.ps(t, "d")):
                    for (k1, v1), (k2, v2) in [(("setatime", T3), ("setmtime", T2)), (("setmtime", T2), ("setatime", T3)),
                                               (("setatime", T1), ("setctime", T2)), (("setmtime", T1), ("setctime", T3)),
                                               (("setctime", T3), ("setmtime", T1)), (("setctime", T2), ("setatime", T1))]:
                        c.op(k1, tgt, v1); c.op("metadata", tgt); c.op(k2, tgt, v2); c.op("metadata", tgt)
            else:                 # directories and copies
                c.op("createdir", vfx.ps(t, "d")); c.op("setctime", vfx.ps(t, "d"), T1); c.op("setmtime", vfx.ps(t, "d"), T2)
                hist.write_file(c, t, "d/x", b"x"); c.op("metadata", vfx.ps(t, "d"))
                c.op("setctime", vfx.ps(t, "d/x"), T3)
                c.op("copyfile", vfx.ps(t, "d/x"), vfx.ps(t, "d/y")); c.op("metadata", vfx.ps(t, "d/x")); c.op("metadata", vfx.ps(t, "d/y"))
                c.op("removefile", vfx.ps(t, "d/x")); c.op("metadata", vfx.ps(t, "d"))
            c.op("snap", t)
            cases.append(c)
    return cases + link_cases() + failed_call_cases() + same_value_cases()


def same_value_cases():
    """a setter called with exactly the value metadata() reports (the harness op `setsame`): it answers as the same setter
    does for any other value - in particular an unsupported setter stays not-supported - and changes nothing"""
    rng = random.Random(79)
    T = hist.TIMES[4]
    cases = []
    for kind in ("mem", "phys", "alt_mem", "alt_phys", "ovl_mm", "ovl_pp", "ovl_sub", "alt_alt"):
        c = vfx.Case("c19_same_%s" % kind)
        g = hist.build_config(c, kind, rng)
        c.cfg = g
        t = g.target
        c.op("createdir", vfx.ps(t, "d"))
        hist.write_file(c, t, "f", b"content")
        if g.prepop:
            lo, sub = g.prepop[0]
            hist.write_file(c, lo, (sub[1:] + "/" if sub else "") + "low", b"lower bytes")
        c.same = []
        for tgt in ("f", "d", "low", "missing"):
            for fld, opk in (("c", "setctime"), ("m", "setmtime"), ("a", "setatime")):
                md = c.op("metadata", vfx.ps(t, tgt))
                same = c.op("setsame", fld, vfx.ps(t, tgt))       # before any explicit value was set: the value of now()
                other = c.op(opk, vfx.ps(t, tgt), T)
                again = c.op("setsame", fld, vfx.ps(t, tgt))      # and with the explicit value just set (if it was)
                c.same.append((same, other, md)); c.same.append((again, other, md))
                c.op("metadata", vfx.ps(t, tgt))
        c.op("snap", t)
        cases.append(c)
    return cases


def same_oracle(cases, mlines, ilines):
    out = []
    for c in cases:
        for (i, j, md) in getattr(c, "same", []):
            a, b = ilines.get(("r", c.name, i)) or "", ilines.get(("r", c.name, j)) or ""
            if a == "ok:optstr:none" or not (ilines.get(("r", c.name, md)) or "").startswith("ok"):
                continue        # no current value to call the setter with
            if hist.outcome_class(histprop.abstract_errors(a)) != hist.outcome_class(histprop.abstract_errors(b)):
                out.append({"case": c.name, "case_text": c.text(), "step": i, "op": c.ops[i], "kind": "r",
                            "model": mlines.get(("r", c.name, j)), "impl": a, "violates": True,
                            "note": "a time setter called with the entry's current value answers %s, with another value %s" % (a[:80], b[:80])})
    return out


def failed_call_cases():
    """calls that FAIL on a stamped entry (open_file / append_file / read_to_string / copy_file on a directory, create_dir
    over it, remove_file of a directory, read_dir of a file) must leave its three timestamps alone"""
    rng = random.Random(77)
    T1, T2, T3 = hist.TIMES[1], hist.TIMES[4], hist.TIMES[5]
    cases = []
    for kind in ("mem", "alt_mem", "ovl_mm", "ovl_sub", "phys"):
        c = vfx.Case("c19_failed_%s" % kind)
        g = hist.build_config(c, kind, rng)
        c.cfg = g
        t = g.target
        c.op("createdir", vfx.ps(t, "d"))
        hist.write_file(c, t, "f", b"content")
        for tgt in ("d", "f"):
            c.op("setctime", vfx.ps(t, tgt), T1); c.op("setmtime", vfx.ps(t, tgt), T2); c.op("setatime", vfx.ps(t, tgt), T3)
            c.op("metadata", vfx.ps(t, tgt))
        h = c.op("openfile", vfx.ps(t, "d")); c.op("hdrop", h); c.op("metadata", vfx.ps(t, "d"))
        h = c.op("appendfile", vfx.ps(t, "d")); c.op("hdrop", h); c.op("metadata", vfx.ps(t, "d"))
        c.op("readtostring", vfx.ps(t, "d")); c.op("metadata", vfx.ps(t, "d"))
        c.op("copyfile", vfx.ps(t, "d"), vfx.ps(t, "zz")); c.op("metadata", vfx.ps(t, "d"))
        c.op("createdir", vfx.ps(t, "d")); c.op("removefile", vfx.ps(t, "d")); c.op("metadata", vfx.ps(t, "d"))
        c.op("readdir", vfx.ps(t, "f")); c.op("createdir", vfx.ps(t, "f")); c.op("removedir", vfx.ps(t, "f")); c.op("metadata", vfx.ps(t, "f"))
        c.op("snap", t)
        cases.append(c)
    return cases


def link_cases():
    """a served directory whose files are symbolic links to files outside it (the model sees plain files: every call
    follows the links): setters, metadata, handles and adapters must all talk about the SAME entry - the linked file"""
    T1, T2, T3 = hist.TIMES[1], hist.TIMES[4], hist.TIMES[5]
    cases = []
    for shape in ("plain", "alt", "ovl_upper", "alt_alt"):
        c = vfx.Case("c19_links_%s" % shape)
        sub = {"plain": "", "alt": "r/", "ovl_upper": "", "alt_alt": "r/s/"}[shape]
        c.embfile(sub + "f", b"linked content, longer than any path of a link target could plausibly be" * 4)
        c.embfile(sub + "d/g", b"gg")
        c.embfile(sub + "empty", b"")
        c.base("physlnk")
        g = hist.Cfg()
        g.has_phys = True
        g.kind = "links_" + shape
        u = c.fs("base", 0)
        if shape == "plain":
            t = u
        elif shape == "alt":
            t = c.fs("alt", u, vfx.hexs("/r"))
        elif shape == "alt_alt":
            a = c.fs("alt", u, vfx.hexs("/r"))
            t = c.fs("alt", a, vfx.hexs("/s"))
        else:
            c.base("mem")
            lo = c.fs("base", 1)
            t = c.fs("ovl", 2, u, "-", lo, "-")
        g.target = t
        g.watch = [u]
        c.cfg = g
        c.has_phys = True
        c.op("snap", t)
        c.first_snap = c.nops - 1
        for n in ("f", "d/g", "empty"):
            x = vfx.ps(t, n)
            c.op("metadata", x); c.op("isfile", x); c.op("readtostring", x)
            c.op("setmtime", x, T2); c.op("metadata", x)
            c.op("setatime", x, T3); c.op("metadata", x)
            c.op("setmtime", x, T1); c.op("metadata", x)
            c.op("setctime", x, T1); c.op("metadata", x)
        a = c.op("appendfile", vfx.ps(t, "f")); c.op("hwrite", a, vfx.hexs(b"+more")); c.op("hdrop", a)
        c.op("metadata", vfx.ps(t, "f")); c.op("readtostring", vfx.ps(t, "f"))
        c.op("setmtime", vfx.ps(t, "f"), T2); c.op("metadata", vfx.ps(t, "f"))
        c.op("copyfile", vfx.ps(t, "f"), vfx.ps(t, "copy")); c.op("metadata", vfx.ps(t, "copy"))
        c.op("readdir", vfx.ps(t, "d")); c.op("walkdir", "%d:" % t); c.op("snap", t)
        c.op("removefile", vfx.ps(t, "d/g")); c.op("exists", vfx.ps(t, "d/g")); c.op("snap", t)
        cases.append(c)
    return cases


MIX = ["settime"] * 8 + ["createfile"] * 3 + ["append"] * 3 + ["createdir"] * 2 + ["metadata"] * 2 + ["copyfile", "removefile"]
P = histprop.HistProp(
    "C19", CONFIGS, typed=True, mix=MIX, with_times=True, project=project, quick_cases=8, thorough_cases=100,
    nops=(10, 20), allow_big=False, corpus_cases=corpus_cases, oracle=same_oracle,
    rule=("histories mixing set_creation/modification/access_time (values: epoch, +-10^9 s, sub-second parts, 1 ns, "
          "year 2100) with write sessions, appends and copies on files and directories; every metadata record of every "
          "snapshot is compared including its three timestamps (explicitly set values exactly, values of now() as 'auto'); "
          "on PhysicalFS the access time is compared only in the metadata() directly after set_access_time; plus a served "
          "directory whose files are symbolic links to files outside it, directly, through altroots and as an overlay's "
          "write layer: the setters, metadata, handles and copies must all address the linked file"),
    assumptions=["host filesystem keeps nanosecond timestamps in the generated range"])
generate, corpus, known = P.generate, P.corpus, P.known
ASSUMPTIONS, BUILDS = P.ASSUMPTIONS, P.BUILDS
RULE = P.RULE + ("; the ASYNC port on physical backends (the async MemoryFS has no setters): every time value (epoch, before the "
                 "epoch, 1 ns, sub-second, year 2100) through set_modification_time / set_access_time on files and directories, "
                 "directly, through an altroot and as an overlay's write layer - metadata must report it, as the sync API does")


def async_times():
    """every time value through the async setters of the physical backend, read back through metadata"""
    rng = random.Random(91)
    cases = []
    for kind in ("phys", "alt_phys", "ovl_pp"):
        c = vfx.Case("c19_async_%s" % kind)
        g = hist.build_config(c, kind, rng)
        c.cfg = g
        t = g.target
        hist.write_file(c, t, "f", b"content")
        c.op("createdir", vfx.ps(t, "d"))
        for tgt in ("f", "d"):
            for v in hist.TIMES + [-1, -999_999_999, -1_000_000_001]:
                c.op("setmtime", vfx.ps(t, tgt), v); c.op("metadata", vfx.ps(t, tgt))
                c.op("setatime", vfx.ps(t, tgt), v); c.op("metadata", vfx.ps(t, tgt))
        cases.append(c)
    return cases


def run_and_compare(cases, tier):
    from props import c15
    res = P.run_and_compare(cases, tier)
    sub = async_times()
    sync, asy, _pend, _amodel = c15.run_variants(sub, "c19a", seed=19)
    by = {c.name: c for c in sub}
    seen = set()
    n = 0
    for k in sorted(set(sync) | set(asy), key=lambda k: (k[1], k[2], k[0])):
        kind, cname, step = k
        if kind != "r" or cname in seen:
            continue
        c = by[cname]
        op = c.ops[step] if step < c.nops else ""
        s_, a_ = sync.get(k), asy.get(k)
        n += 1
        if histprop.abstract_errors(s_ or "") != histprop.abstract_errors(a_ or ""):
            seen.add(cname)
            res["disagreements"].append({"case": cname, "case_text": c.text(), "step": step, "op": op, "kind": "r", "model": sync.get(k),
                                         "impl": a_, "violates": True,
                                         "note": "async physical backend at `%s`: %s where the sync API gives %s" % (op[:50], (a_ or "")[:120], (s_ or "")[:120])})
    res["stats"].setdefault("distribution", {})["async_time_lines_compared"] = n
    return res
