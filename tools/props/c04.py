"""C04 - files return exactly the bytes that were written."""
import re
from props import hist, histprop

ALL = hist.CONFIGS


def project(kind, case, step, op, line):
    """file bytes and lengths only: snapshot file entries, read results, metadata lengths"""
    if line is None:
        return None
    opk = op.split(" ")[0]
    if opk == "snap":
        ents = histprop.snap_entries(line)
        if ents is None:
            return histprop.contract_view(line)
        keep = []
        for e in ents:
            md = hist.strip_times(e[1])
            if ":file:" in md or e[2] != "-":
                keep.append((e[0], md, histprop.abstract_errors(e[2])))
            elif ":dir:" in md:
                keep.append((e[0], md))          # directories report length 0
        return tuple(keep)
    if opk in ("readtostring", "hread", "hreadtoend", "metadata", "hwrite", "hseek", "hflush", "copyfile", "movefile",
               "createfile", "appendfile", "openfile", "hdrop"):
        return histprop.contract_view(line)
    return hist.outcome_class(line)


def corpus_cases():
    """read handles driven over both ends after partial reads (what a reader obtains after SeekFrom::End / Current once
    its position has moved), and what is visible while write handles are open"""
    return hist.reader_seek_cases("c04", ["mem", "phys", "alt_mem", "ovl_mm", "ovl_m"]) + \
        hist.open_handle_cases("c04", ["mem", "phys", "alt_mem", "ovl_mm", "ovl_mmm", "ovl_sub", "alt_ovl"])


MIX = ["createfile"] * 6 + ["append"] * 4 + ["copyfile"] * 2 + ["movefile"] * 2 + ["readtostring"] * 2 + ["createdir", "metadata", "removefile"]
P = histprop.HistProp(
    "C04", ALL, typed=True, mix=MIX, project=project, corpus_cases=corpus_cases, quick_cases=6, thorough_cases=80, nops=(8, 16),
    rule=("random write sessions (create with writes, in-place overwrites via seek, seeks past the end, flush while open; "
          "append; copy_file; move_file) with contents from {empty, 1 byte, ASCII, non-UTF-8, 8191/8192/8193 and 70000 bytes} "
          "on all 15 backend configurations, a full content snapshot after every operation; non-trivial = at least 3 "
          "successful and 1 failing call; distinct by the transcript of outcomes"),
    assumptions=["write positions stay below 100 kB (a Vec<u8> of 2^60 bytes cannot be allocated)",
                 "seek on append handles is compared on the in-memory backend only (the generator does not seek on append handles)"])
generate, corpus, run_and_compare, known = P.generate, P.corpus, P.run_and_compare, P.known
RULE, ASSUMPTIONS, BUILDS = P.RULE, P.ASSUMPTIONS, P.BUILDS
