"""C04 - files return exactly the bytes that were written."""
import re
import vfx
from props import hist, histprop

ALL = hist.CONFIGS


def project(kind, case, step, op, line):
    """file bytes and lengths only: snapshot file entries, read results, metadata lengths"""
    if line is None:
        return None
    opk = op.split(" ")[0]
    if opk == "snap":
        ents = histprop.snap_entries(line)
        if ents is None:
            return histprop.contract_view(line)
        keep = []
        for e in ents:
            md = hist.strip_times(e[1])
            if ":file:" in md or e[2] != "-":
                keep.append((e[0], md, histprop.abstract_errors(e[2])))
            elif ":dir:" in md:
                keep.append((e[0], md))          # directories report length 0
        return tuple(keep)
    if opk in ("readtostring", "hread", "hreadtoend", "metadata", "hwrite", "hseek", "hflush", "copyfile", "movefile",
               "createfile", "appendfile", "openfile", "hdrop"):
        return histprop.contract_view(line)
    return hist.outcome_class(line)


def corpus_cases():
    """read handles driven over both ends after partial reads (what a reader obtains after SeekFrom::End / Current once
    its position has moved), and what is visible while write handles are open"""
    return hist.reader_seek_cases("c04", ["mem", "phys", "alt_mem", "ovl_mm", "ovl_m"]) + \
        hist.open_handle_cases("c04", ["mem", "phys", "alt_mem", "ovl_mm", "ovl_mmm", "ovl_sub", "alt_ovl"]) + \
        hist.transfer_name_cases("c04", ["mem", "phys", "alt_mem", "ovl_mm", "ovl_mp"]) + \
        hist.big_text_cases("c04", ["mem", "phys", "alt_mem", "ovl_mm", "ovl_mp"]) + \
        hist.overwrite_session_cases("c04", ["mem", "alt_mem", "ovl_mm", "ovl_sub"])


MIX = ["createfile"] * 6 + ["append"] * 4 + ["copyfile"] * 2 + ["movefile"] * 2 + ["readtostring"] * 2 + ["createdir", "metadata", "removefile"]
P = histprop.HistProp(
    "C04", ALL, typed=True, mix=MIX, project=project, corpus_cases=corpus_cases, quick_cases=6, thorough_cases=80, nops=(8, 16),
    rule=("random write sessions (create with writes, in-place overwrites via seek, seeks past the end, flush while open; "
          "append; copy_file; move_file) with contents from {empty, 1 byte, ASCII, non-UTF-8, 8191/8192/8193 and 70000 bytes} "
          "on all 15 backend configurations, a full content snapshot after every operation; non-trivial = at least 3 "
          "successful and 1 failing call; distinct by the transcript of outcomes"),
    assumptions=["write positions stay below 100 kB (a Vec<u8> of 2^60 bytes cannot be allocated)",
                 "seek on append handles is compared on the in-memory backend only (the generator does not seek on append handles)"])
generate, corpus, known = P.generate, P.corpus, P.known
ASSUMPTIONS, BUILDS = P.ASSUMPTIONS, P.BUILDS
RULE = P.RULE + ("; the ASYNC port: write sessions (create / append, contents of every size class, ended by drop or by an "
                 "explicit close() followed by the drop, single or repeated on one path) on memory, altroot, overlay (copy-up) "
                 "and physical backends through the async API, read back afresh and compared with the sync run and the async model")


def async_sessions():
    """completed write sessions through the async port; half of them end with AsyncWrite::close before the drop"""
    import random
    rng = random.Random(44)
    sizes = [b"", b"x", b"hello world", bytes([0, 159, 146, 150]), bytes((j * 7) % 256 for j in range(8193)),
             bytes((j * 3) % 251 for j in range(70000))]
    cases = []
    for kind in ("mem", "alt_mem", "ovl_mm", "ovl_mmm", "phys"):
        for closing in (False, True):
            c = vfx.Case("c04_async_%s_%s" % (kind, "close" if closing else "drop"))
            g = hist.build_config(c, kind, rng)
            c.cfg = g
            t = g.target
            if g.prepop:
                lo, sub = g.prepop[-1]
                hist.write_file(c, lo, (sub[1:] + "/" if sub else "") + "low", b"lower bytes")
            for i, data in enumerate(sizes):
                f = vfx.ps(t, "f%d" % i)
                w = c.op("createfile", f)
                for part in (data[:len(data) // 2], data[len(data) // 2:]):
                    c.op("hwrite", w, vfx.hexs(part))
                if closing:
                    c.op("xclose", w)
                c.op("hdrop", w)
                c.op("readtostring", f); c.op("metadata", f)
                a = c.op("appendfile", f); c.op("hwrite", a, vfx.hexs(b"+tail"))
                if closing:
                    c.op("xclose", a)
                c.op("hdrop", a)
                c.op("readtostring", f); c.op("metadata", f)
            if g.prepop:
                a = c.op("appendfile", vfx.ps(t, "low")); c.op("hwrite", a, vfx.hexs(b"+up"))
                if closing:
                    c.op("xclose", a)
                c.op("hdrop", a)
                c.op("readtostring", vfx.ps(t, "low"))
            c.op("snap", t)
            cases.append(c)
    return cases


def run_and_compare(cases, tier):
    from props import c15
    res = P.run_and_compare(cases, tier)
    sub = async_sessions()
    sync, asy, pend, amodel = c15.run_variants(sub, "c04a", seed=4)
    by = {c.name: c for c in sub}
    seen = set()
    n = 0
    for k in sorted(set(sync) | set(asy) | set(pend) | set(amodel), key=lambda k: (k[1], k[2], k[0])):
        kind, cname, step = k
        if kind != "r" or cname in seen:
            continue
        c = by[cname]
        op = c.ops[step] if step < c.nops else ""
        views = [histprop.contract_view(hist.strip_times(x)) if x is not None else None for x in (sync.get(k), asy.get(k), pend.get(k), amodel.get(k))]
        n += 1
        if len(set(views)) > 1:
            seen.add(cname)
            which = "async port vs sync API" if views[0] != views[1] else "async port with pending futures" if views[1] != views[2] else "async port vs async model"
            res["disagreements"].append({"case": cname, "case_text": c.text(), "step": step, "op": op, "kind": "r", "model": amodel.get(k),
                                         "impl": asy.get(k), "violates": True,
                                         "note": "%s at `%s`: sync %s / async %s / model %s" % (which, op[:50], (views[0] or "")[:80], (views[1] or "")[:80], (views[3] or "")[:80])})
    res["stats"].setdefault("distribution", {})["async_session_lines_compared"] = n
    return res
