"""Helpers shared by the property modules."""
import re
import vfx


_ATIME = re.compile(r"(meta:(?:file|dir):\d+:(?:none|auto|set:-?\d+):(?:none|auto|set:-?\d+)):(?:none|auto|set:-?\d+)")


def run_async(cases, tag, extra=None):
    """the cases through the async port (vfsx --async): {(kind, case, step): line}"""
    import os
    import subprocess
    from concurrent.futures import ThreadPoolExecutor
    exe = os.path.join(vfx.HARNESS, "target", "debug", "vfsx")
    os.makedirs(vfx.WORK, exist_ok=True)
    pieces, _ = vfx.split_cases("".join(c.text() for c in cases), vfx.NPROC)
    jobs = []
    for i, pc in enumerate(pieces):
        f = os.path.join(vfx.WORK, "%s_%d.cases" % (tag, i))
        open(f, "w").write(pc)
        jobs.append([exe, "--async", f] + (extra or []))

    def run(job):
        r = subprocess.run(job, stdout=subprocess.PIPE, stderr=subprocess.PIPE, text=True, timeout=3000)
        return r.returncode, r.stdout, r.stderr
    with ThreadPoolExecutor(max_workers=vfx.NPROC) as ex:
        res = list(ex.map(run, jobs))
    out = {}
    for (rc, so, se), job in zip(res, jobs):
        if rc != 0:
            raise RuntimeError("async harness failed on %s: %s" % (job[2], se[-1500:]))
        for line in so.splitlines():
            parts = line.split(" ", 3)
            if len(parts) == 4:
                out[(parts[0], parts[1], int(parts[2]))] = parts[3]
        os.remove(job[2])
    return out


def mask_phys_atime(case, step, optext, line):
    """On a real disk the access time is the kernel's business (relatime) as soon as anything is opened or read: it is
    compared in a metadata() call only while nothing but stat-like calls and time setters (metadata, exists,
    set_*_time) has happened since the last set_access_time of the case."""
    if line is None or not getattr(case, "has_phys", False):
        return line
    if optext.startswith("metadata "):
        k = step - 1
        while k >= 0 and case.ops[k].split(" ")[0] in ("metadata", "exists", "setmtime", "setctime"):
            k -= 1
        if k >= 0 and case.ops[k].startswith("setatime "):
            return line
    return _ATIME.sub(r"\1:*", line)


def run_cases(cases, tag, project, sorted_mode=True, release=False, want_logs=False):
    """Run every case through model and implementation; compare projected lines.
    project(kind, case, step, op_text, line) -> comparable value or None (ignored).
    Returns dict(disagreements=[...], stats={...})."""
    text = "".join(c.text() for c in cases)
    by_name = {c.name: c for c in cases}
    mlines, ilines = vfx.run_both(text, tag, sorted_mode=sorted_mode, release=release)
    dis = []
    seen_case = set()
    keys = sorted(set(mlines) | set(ilines), key=lambda k: (k[1], k[2], k[0]))
    for k in keys:
        kind, cname, step = k
        if kind == "l" and not want_logs:
            continue
        c = by_name.get(cname)
        if c is None or cname in seen_case:
            continue
        optext = c.ops[step] if step < len(c.ops) else "?"
        m = mask_phys_atime(c, step, optext, mlines.get(k))
        i = mask_phys_atime(c, step, optext, ilines.get(k))
        pm = project(kind, c, step, optext, m) if m is not None else None
        pi = project(kind, c, step, optext, i) if i is not None else None
        if pm != pi:
            seen_case.add(cname)   # first difference of a case only
            dis.append({"case": cname, "case_text": c.text(), "step": step, "op": optext, "kind": kind,
                        "model": m, "impl": i, "pm": pm, "pi": pi})
    return dis, mlines, ilines


def shrink(case_ctor, ops, still_fails, max_rounds=200):
    """delta-debug a list of op lines: remove chunks while the disagreement persists"""
    n = 2
    rounds = 0
    while len(ops) >= 2 and rounds < max_rounds:
        rounds += 1
        chunk = max(1, len(ops) // n)
        removed = False
        for start in range(0, len(ops), chunk):
            cand = ops[:start] + ops[start + chunk:]
            if cand and still_fails(cand):
                ops = cand
                n = max(n - 1, 2)
                removed = True
                break
        if not removed:
            if chunk == 1:
                break
            n = min(n * 2, len(ops))
    return ops
