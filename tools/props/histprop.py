"""Factory for property modules whose correspondence check is a set of generated histories."""
import re
import vfx
from props import common, hist


def snap_entries(line):
    """parse an ok:snap line into [(hexpath, meta-or-err, content, listerr)]"""
    if line is None or not line.startswith("ok:snap:"):
        return None
    out = []
    for ent in line[len("ok:snap:"):].split("|"):
        parts = ent.split(";")
        out.append(tuple(parts))
    return out


def abstract_errors(line):
    """replace every err:<Kind>:<path> by its contract class"""
    if line is None:
        return None

    def cls(m):
        k = m.group(1)
        return "err:" + (k if k in ("NotFound", "DirExists", "FileExists", "InvalidPath", "NotSupported", "MODEL-STUCK") else "other")
    line = re.sub(r"err:([\w-]+):(?:U|P[0-9a-f-]+)", cls, line)
    if line.startswith("ok:items:"):
        line = re.sub(r"(?<=[:,])e([A-Za-z-]+)@(?:U|P[0-9a-f-]+)", lambda m: "e" + ("NotFound" if m.group(1) == "NotFound" else "other"), line)
    return line


def contract_view(line):
    """what C01-style contracts constrain: ok values without timestamps, error classes"""
    if line is None:
        return None
    return abstract_errors(hist.strip_times(line))


def spec_oracle(cases, mlines, ilines):
    """the contracts of the path API applied to the implementation's transcript (independent of the model)"""
    from props import spec
    out = []
    for c in cases:
        fs = getattr(c, "first_snap", None)
        if fs is None:
            continue
        for step, note in spec.check_case(c, c.cfg.target, ilines, fs):
            out.append({"case": c.name, "case_text": c.text(), "step": step, "op": c.ops[step], "kind": "r",
                        "model": mlines.get(("r", c.name, step)), "impl": ilines.get(("r", c.name, step)),
                        "violates": True, "note": "contract oracle: " + note, "cfg": c.cfg.kind, "spec": True})
    return out


class HistProp:
    def __init__(self, prop, configs, typed=True, mix=None, with_times=False, project=None, want_logs=False,
                 quick_cases=12, thorough_cases=150, nops=(8, 18), oracle=None, known=None, sorted_mode=True,
                 builds=(False,), extra_gen=None, rule="", assumptions=None, snap_watch=False, corpus_cases=None,
                 prepop_density=0.5, allow_big=True, after_prepop=None, hostile=0.1, finish=None, use_spec=False):
        self.prop = prop
        self.configs = configs
        self.typed = typed
        self.mix = mix
        self.with_times = with_times
        self.project = project or (lambda kind, case, step, op, line: contract_view(line))
        self.want_logs = want_logs
        self.quick_cases = quick_cases
        self.thorough_cases = thorough_cases
        self.nops = nops
        self.oracle = oracle
        self.known_fn = known
        self.sorted_mode = sorted_mode
        self.BUILDS = list(builds)
        self.extra_gen = extra_gen
        self.RULE = rule
        self.ASSUMPTIONS = assumptions or []
        self.snap_watch = snap_watch
        self.corpus_cases = corpus_cases
        self.prepop_density = prepop_density
        self.allow_big = allow_big
        self.after_prepop = after_prepop
        self.hostile = hostile
        self.finish = finish
        self.use_spec = use_spec

    def corpus(self):
        return self.corpus_cases() if self.corpus_cases else []

    def generate(self, rng, tier):
        n = self.quick_cases if tier == "quick" else self.thorough_cases
        cases = []
        for kind in self.configs:
            for i in range(n):
                c = vfx.Case("%s_%s_%d" % (self.prop.lower(), kind, i))
                g = hist.build_config(c, kind, rng)
                c.cfg = g
                if self.snap_watch:
                    c.watch_start = {}
                hist.gen_history(c, g, rng, rng.randint(*self.nops), typed=self.typed, mix=self.mix,
                                 with_times=self.with_times, prepop_density=self.prepop_density,
                                 allow_big=self.allow_big, after_prepop=self.after_prepop, hostile=self.hostile)
                if self.finish:
                    self.finish(c, g)
                for w in g.watch:
                    c.op("snap", w)
                cases.append(c)
        if self.extra_gen:
            cases += self.extra_gen(rng, tier)
        return cases

    def known(self, d):
        return self.known_fn(d) if self.known_fn else None

    def run_and_compare(self, cases, tier):
        all_dis = []
        evals = 0
        distinct = set()
        dist = {}
        samples = []
        for rel in self.BUILDS:
            dis, mlines, ilines = common.run_cases(cases, self.prop.lower(), self.project, sorted_mode=self.sorted_mode,
                                                   release=rel, want_logs=self.want_logs)
            for d in dis:
                d["violates"] = True
                d["note"] = "implementation deviates from the proved model on: " + str(d.get("pi"))[:200] + " vs model " + str(d.get("pm"))[:200]
                d["build"] = "release" if rel else "debug"
            all_dis += dis
            if self.oracle:
                all_dis += self.oracle(cases, mlines, ilines)
            if self.use_spec:
                all_dis += spec_oracle(cases, mlines, ilines)
            by = {c.name: c for c in cases}
            for (kind, cname, step), line in ilines.items():
                if kind != "r":
                    continue
                evals += 1
                c = by[cname]
                opk = c.ops[step].split(" ")[0]
                cls = hist.outcome_class(line)
                dist[opk + ":" + cls] = dist.get(opk + ":" + cls, 0) + 1
            for c in cases:
                outs = [ilines.get(("r", c.name, s)) for s in range(c.nops)]
                ok = sum(1 for o in outs if o and o.startswith("ok"))
                er = sum(1 for o in outs if o and o.startswith("err"))
                if ok >= 3 and er >= 1:
                    distinct.add(vfx.digest("|".join(o or "" for o in outs)))
            if cases and not samples:
                c = cases[len(cases) // 2]
                samples.append({"case": c.name, "ops": c.ops[:12],
                                "impl_outcomes": [ilines.get(("r", c.name, s), "")[:120] for s in range(min(12, c.nops))]})
        stats = {"evaluations": evals, "distinct_nontrivial": len(distinct), "samples": samples, "distribution": dist,
                 "cases": len(cases)}
        return {"disagreements": all_dis, "stats": stats}
