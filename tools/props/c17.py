"""C17 - concurrent create_dir_all calls all succeed."""
import itertools
import vfx
from props import conclib, hist, histprop

CFGS = {
    "mem": (["base mem", "fs base 0"], 0, []),
    "alt": (["base mem", "fs base 0", "fs alt 0 " + vfx.hexs("/r")], 1, ["createdirall 0:j72"]),
    "ovl": (["base mem", "base mem", "fs base 0", "fs base 1", "fs ovl 2 0 - 1 -"], 2, ["createdirall 1:j612f78"]),
    # the overlay after a removal: /a existed in the lower layer and was removed through the overlay, so its
    # deletion marker is present while the threads re-create it (the window repaired by a7ee48b)
    "ovlrm": (["base mem", "base mem", "fs base 0", "fs base 1", "fs ovl 2 0 - 1 -"], 2,
              ["createdirall 1:j61", "removedir 2:j61"]),
    # two SIBLINGS were removed through the overlay: their markers share one bookkeeping directory, which the
    # threads re-creating them both touch
    "ovlrm2": (["base mem", "base mem", "fs base 0", "fs base 1", "fs ovl 2 0 - 1 -"], 2,
               ["createdirall 1:j70,j61", "createdirall 1:j70,j62", "removedir 2:j70,j61", "removedir 2:j70,j62"]),
    "ovlrm3": (["base mem", "base mem", "fs base 0", "fs base 1", "fs ovl 2 0 - 1 -"], 2,
               ["createdirall 1:j61", "createdirall 1:j62", "removedir 2:j61", "removedir 2:j62"]),
    # what was removed was a FILE of the lower layer: nothing visible is in the way
    "ovlrmf": (["base mem", "base mem", "fs base 0", "fs base 1", "fs ovl 2 0 - 1 -"], 2,
               ["createfile 1:j61", "hdrop 1000", "removefile 2:j61"]),
    "phys": (["base phys", "fs base 0"], 0, []),
    "altphys": (["base phys", "fs base 0", "fs alt 0 " + vfx.hexs("/r")], 1, ["createdirall 0:j72"]),
}
PATHSETS = [
    ["a", "a"], ["a", "a/b"], ["a/b", "a/c"], ["a/b/c", "a/b"], ["a/b/c", "a/b/c"], ["a/b/c/d", "a"], ["a/b", "x/y"],
    ["a/b/c/d", "a/b/x/y"], ["a", "a/b", "a/b/c"], ["a/b", "a/b", "a/b"], ["a/b/c", "a/x", "a/b/y"], ["é/日", "é/日/a b"],
    ["a/b/c/d", "a/b/c/d", "a/b"], ["a", "b", "a/b", "b/a"],
]


def gen_progs(rng, tier):
    progs = []
    for cname, (cfg, target, setup) in CFGS.items():
        sets = PATHSETS if tier != "quick" else PATHSETS[:10] if cname == "mem" else rng.sample(PATHSETS, 4)
        if cname == "ovlrm":
            sets = [ps for ps in PATHSETS if all(q.startswith("a/") for q in ps)]
            sets = sets if tier != "quick" else sets[:2]
        if cname == "ovlrm2":
            sets = [["p/a", "p/b"], ["p/a/x", "p/b/deep/er"], ["p/a", "p/b", "p/a"]]
            sets = sets if tier != "quick" else sets[:2]
        if cname == "ovlrm3":
            sets = [["a", "b"], ["a/x", "b/deep/er"]]
        if cname == "ovlrmf":
            sets = [["a", "a"], ["a/x", "a/y"], ["a", "a/b/c"]]
            sets = sets if tier != "quick" else sets[:2]
        if cname in ("mem", "alt", "ovl", "ovlrm"):
            # the same stackings under FREE-RUNNING OS threads: a thread that finds the lock held (never the case under
            # the cooperative scheduler)
            for i, paths in enumerate([["a/b/c", "a/b/d", "x/y", "a"], ["p/q", "r/s", "t/u", "v/w"]]):
                if cname == "ovlrm":
                    paths = ["a/" + q for q in paths]
                threads = [["createdirall " + vfx.ps(target, q)] for q in paths]
                p = conclib.Prog("c17%sfree%d" % (cname, i), cfg, setup, threads, "stress %d" % (200 if tier == "quick" else 3000))
                p.paths, p.cname = paths, cname + "free"
                progs.append(p)
        for i, paths in enumerate(sets):
            threads = [["createdirall " + vfx.ps(target, p)] for p in paths]
            if cname in ("phys", "altphys"):
                mode = "stress %d" % (300 if tier == "quick" else 5000)
                if len(paths) < 4:
                    threads = threads + [["createdirall " + vfx.ps(target, paths[0])]]
            elif cname.startswith("ovlrm"):
                mode = "pbound 2,%d" % (4000 if tier == "quick" else 60000)
            else:
                cap = {"mem": 40000, "alt": 6000, "ovl": 1500}[cname] * (1 if tier == "quick" else 10)
                mode = "explore %d" % cap
            p = conclib.Prog("c17%s%d" % (cname, i), cfg, setup, threads, mode)
            p.paths, p.cname = paths, cname
            progs.append(p)
    # a write handle that OUTLIVED its file (the file was removed before the threads start: nothing is in the way, no
    # removal is concurrent) is flushed / dropped by one thread while the others create directories under the same name
    stale = {
        "memstale": (["base mem", "fs base 0"], 0, ["createfile 0:j61", "hwrite 1000 78", "removefile 0:j61"], "explore 20000"),
        "altstale": (["base mem", "fs base 0", "fs alt 0 " + vfx.hexs("/r")], 1,
                     ["createdirall 0:j72", "createfile 1:j61", "hwrite 1001 78", "removefile 1:j61"], "explore 20000"),
        "ovlstale": (["base mem", "base mem", "fs base 0", "fs base 1", "fs ovl 2 0 - 1 -"], 2,
                     ["createfile 2:j61", "hwrite 1000 78", "removefile 2:j61"], "pbound 2,6000"),
    }
    for cname, (cfg, target, setup, mode) in stale.items():
        if tier == "quick":
            mode = {"explore 20000": "explore 5000", "pbound 2,6000": "pbound 2,2500"}[mode]
        h = 1001 if cname == "altstale" else 1000
        for i, (first, paths) in enumerate([(["hdrop %d" % h], ["a/b/c", "a/d"]), (["hflush %d" % h, "hdrop %d" % h], ["a", "a/b"]),
                                            (["hdrop %d" % h], ["a/b"])]):
            if tier == "quick" and cname == "ovlstale" and i == 1:
                continue
            threads = [first] + [["createdirall " + vfx.ps(target, q)] for q in paths]
            p = conclib.Prog("c17%s%d" % (cname, i), cfg, setup, threads, mode)
            p.paths, p.cname = paths, cname
            progs.append(p)
    return progs


RULE = ("2-4 threads calling create_dir_all on path pairs/triples of depth 1-4 that share prefixes of every length (equal "
        "paths, ancestor/descendant, siblings, disjoint, multi-byte names): on MemoryFS, on AltrootFS over MemoryFS and on "
        "OverlayFS over two MemoryFS (upper empty, lower pre-populated) ALL interleavings at lock granularity are enumerated "
        "(depth-first over the scheduling choices at the verif-hooks yield points; capped for the overlay, whose create_dir "
        "takes the lock ~15 times; on the overlay after a removal of the common ancestor, and after removals of the two "
        "sibling directories that the threads re-create - deletion markers present, sharing one bookkeeping directory - all "
        "schedules with at most 2 preemptions; the same while another thread flushes / drops a write handle that outlived its "
        "(removed) file of the same name) and a sample is replayed on the Coq interleaved semantics; on PhysicalFS and AltrootFS over "
        "it free-running OS threads are started behind a barrier for 300 (quick) / 5000 (thorough) rounds; oracle: every "
        "thread returns Ok and afterwards every requested path and each ancestor is a directory; the ASYNC port: concurrent tasks "
        "calling create_dir_all through the async API on AsyncMemoryFS, altroot and overlay (after removals of a directory, of a "
        "FILE, of two siblings), interleaved at trait-call granularity by a cooperative scheduler (a gate before every trait "
        "call of every instance), all schedules with at most 2 preemptions, same oracle (no model replay: the interleaved "
        "semantics is the sync one); AsyncPhysicalFS: free-running OS threads each driving its create_dir_all task, 300 / 5000 rounds")
ASSUMPTIONS = ["PhysicalFS: atomicity of mkdir(2) and EEXIST are the kernel's; the interleavings are sampled, not enumerated",
               "no concurrent removals and no files in the way (the property's precondition); a removal BEFORE the threads start is part of the explored setups"]
BUILDS = [False]


def corpus():
    return []


def generate(rng, tier):
    return gen_progs(rng, tier)


def body_of(line):
    """results and final state without the sequence of lock acquisitions"""
    return line.split(" :: ", 1)[1] if " :: " in line else line


ACFGS = {
    # concurrent TASKS through the async port (scheduler: a gate before every trait call of every wrapper; one step =
    # one trait call); the async MemoryFS has no lock hooks, so this is the granularity of the adapters
    "amem": (["base mem", "fs base 0"], 0, []),
    "aalt": (["base mem", "fs base 0", "fs alt 0 " + vfx.hexs("/r")], 1, ["createdirall 0:j72"]),
    "aovl": (["base mem", "base mem", "fs base 0", "fs base 1", "fs ovl 2 0 - 1 -"], 2, ["createdirall 1:j612f78"]),
    "aovlrm": (["base mem", "base mem", "fs base 0", "fs base 1", "fs ovl 2 0 - 1 -"], 2, ["createdirall 1:j61", "removedir 2:j61"]),
    # what was removed was a FILE: nothing visible is in the way, but a stale lower-layer file sits behind the marker
    "aovlrmf": (["base mem", "base mem", "fs base 0", "fs base 1", "fs ovl 2 0 - 1 -"], 2,
                ["createfile 1:j61", "hdrop 1000", "removefile 2:j61"]),
    "aovlrm2": (["base mem", "base mem", "fs base 0", "fs base 1", "fs ovl 2 0 - 1 -"], 2,
                ["createdirall 1:j70,j61", "createdirall 1:j70,j62", "removedir 2:j70,j61", "removedir 2:j70,j62"]),
}


def gen_async_progs(tier):
    progs = []
    # AsyncPhysicalFS (real I/O through the runtime's thread pool): free-running OS threads, each driving its task
    rounds = 300 if tier == "quick" else 5000
    for i, paths in enumerate([["a/b/c", "a/b/c", "a/b", "a"], ["x/y", "x/z", "x/y/w", "x"]]):
        threads = [["createdirall " + vfx.ps(0, q)] for q in paths]
        p = conclib.Prog("c17aphys%d" % i, ["base phys", "fs base 0"], [], threads, "stress %d" % rounds)
        p.paths, p.cname = paths, "aphys"
        progs.append(p)
    for cname, (cfg, target, setup) in ACFGS.items():
        if cname == "aovlrm2":
            sets = [["p/a", "p/b"], ["p/a/x", "p/b/deep/er"]]
        elif cname in ("aovlrm", "aovlrmf"):
            sets = [["a", "a"], ["a/x", "a/y"], ["a", "a/b/c"], ["a/b", "a/b", "a"]]
        else:
            sets = PATHSETS[:8] if tier == "quick" else PATHSETS
        for i, paths in enumerate(sets):
            threads = [["createdirall " + vfx.ps(target, p)] for p in paths]
            p = conclib.Prog("c17%s%d" % (cname, i), cfg, setup, threads, "pbound 2,%d" % (3000 if tier == "quick" else 40000))
            p.paths, p.cname = paths, cname
            progs.append(p)
    return progs


def run_and_compare(progs, tier):
    explored = conclib.explore(progs, "c17")
    aprogs = gen_async_progs(tier)
    explored.update(conclib.explore(aprogs, "c17a", flag="--aconc"))
    progs = progs + aprogs
    replayable = [p for p in progs if p.cname in ("mem", "alt", "ovl", "ovlrm", "ovlrm2", "ovlrm3", "ovlrmf", "memstale", "altstale", "ovlstale")]
    model, nreplayed = conclib.replay_model(replayable, {p.name: explored[p.name] for p in replayable}, "c17",
                                            limit_per_prog=150)
    dis = []
    failing, broken = {}, {}
    nruns = 0
    exhaustive = 0
    distinct = set()
    for p in progs:
        d = explored[p.name]
        if "exhaustive=true" in d["done"]:
            exhaustive += 1
        if "failed_rounds=" in d["done"]:
            nruns += int(d["done"].split("runs=")[1].split(" ")[0]) - len(d["runs"])
        for sch, rest in d["runs"]:
            nruns += 1
            bad = None
            if "DEADLOCK" in rest:
                bad = "deadlock"
            else:
                body = rest.split(" :: ", 1)[1]
                results, snap = body.split(" || ")
                if any(not r.strip().startswith("ok") for t in results.split(" | ") for r in t.split(";")):
                    bad = "a create_dir_all call failed: " + results[:200]
                else:
                    ents = histprop.snap_entries(snap) or []
                    dirs = set(vfx.unhex(e[0]).decode("utf-8") for e in ents if e[0] != "-" and ":dir:" in e[1])
                    for q in p.paths:
                        parts = q.split("/")
                        for i in range(1, len(parts) + 1):
                            if "/" + "/".join(parts[:i]) not in dirs:
                                bad = "after all threads returned Ok, /%s is not a directory" % "/".join(parts[:i])
                distinct.add(sch if len(distinct) < 100000 else "")
            if bad and p.name not in failing:
                failing[p.name] = {"case": p.name, "case_text": p.text(schedule=sch if not sch.startswith("stress") else None),
                                   "step": None, "op": "schedule " + sch, "model": model.get((p.name, sch)), "impl": rest,
                                   "violates": True, "note": bad}
            m = model.get((p.name, sch))
            if m is not None and m != rest and (p.name not in broken or not broken[p.name]["violates"]):
                differs = body_of(m) != body_of(rest)
                if differs or p.name not in broken:
                    broken[p.name] = {"case": p.name, "case_text": p.text(schedule=sch), "step": None, "op": "schedule " + sch,
                                      "model": m, "impl": rest, "violates": differs,
                                      "note": ("results or final state differ from the proved interleaved model under this schedule"
                                               if differs else
                                               "correspondence: the sequence of lock acquisitions differs from the model's under "
                                               "the same schedule; no schedule of this program on which a create_dir_all fails or a "
                                               "requested directory is missing was found")}
    for p in progs:
        if p.name in failing:
            dis.append(failing[p.name])
        elif p.name in broken:
            dis.append(broken[p.name])
    dis.sort(key=lambda x: not x["violates"])
    stats = {"evaluations": nruns, "distinct_nontrivial": len(distinct),
             "samples": [{"program": progs[1].text(), "schedules_explored": len(explored[progs[1].name]["runs"]),
                          "harness_summary": explored[progs[1].name]["done"]}],
             "distribution": {"programs": len(progs), "programs_exhaustively_explored": exhaustive,
                              "schedules_replayed_on_model": nreplayed,
                              "per_program": {p.name: explored[p.name]["done"] for p in progs[:40]}}}
    return {"disagreements": dis, "stats": stats}
