"""C08 - OverlayFS never modifies lower layers; observers modify nothing."""
import vfx
from props import hist, histprop

CONFIGS = ["ovl_mm", "ovl_mmm", "ovl_pp", "ovl_mp", "ovl_sub", "ovl_psub", "ovl_late", "alt_ovl", "ovl_alt", "ovl_ovl", "ovl_lo_ovl", "ovl_4", "ovl_pmpm"]
MUTATING = {"create_dir", "create_file", "append_file", "set_creation_time", "set_modification_time",
            "set_access_time", "remove_file", "remove_dir", "copy_file", "move_file", "move_dir"}
OBSERVERS = {"exists", "metadata", "isfile", "isdir", "readdir", "openfile", "walkdir", "readtostring", "probe",
             "snap", "tree", "hread", "hseek", "hreadtoend"}
ATIME = 1_000_000_007_123_456_789


def lower_insts(g):
    return sorted(set(i for (i, _) in g.lowers))


def after_prepop(c, g, tree):
    """give every pre-populated lower entry explicit access, modification and creation times, then record the lower layers
    without opening any file"""
    for (inst, sub) in g.prepop:
        base = sub[1:] + "/" if sub else ""
        for p in sorted(tree.dirs | set(tree.files)):
            if p:
                # all three timestamps explicit: a "now" that replaces a "now" would be invisible
                c.op("setatime", vfx.ps(inst, base + hist.rel(p)), ATIME)
                c.op("setmtime", vfx.ps(inst, base + hist.rel(p)), ATIME - 1_000_000_000)
                c.op("setctime", vfx.ps(inst, base + hist.rel(p)), ATIME - 2_000_000_000)
    c.first_tree = {}
    for i in lower_insts(g):
        c.first_tree[i] = c.op("tree", i)


def finish(c, g):
    c.last_tree = {}
    for i in lower_insts(g):
        c.last_tree[i] = c.op("tree", i)


def project(kind, case, step, op, line):
    if line is None:
        return None
    if kind == "l":
        return line
    return histprop.contract_view(line)


def in_upper(g, inst, path_hex):
    """is this (instance, path) part of the write layer?"""
    up_i, up_sub = g.upper
    p = vfx.unhex(path_hex).decode("utf-8", "replace")
    if inst != up_i:
        return False
    return up_sub == "" or p == up_sub or p.startswith(up_sub + "/")


def oracle(cases, mlines, ilines):
    out = []
    for c in cases:
        g = c.cfg
        if not g.upper:
            continue
        lows = set(i for (i, _) in g.lowers)
        shared = g.upper[0] in lows           # one instance serves as upper and lower (sub-directories)
        for step, op in enumerate(c.ops):
            toks = op.split(" ")
            # only operations made through the overlay (or something stacked on it)
            if len(toks) < 2 or ":" not in toks[1] or int(toks[1].split(":")[0]) != g.target:
                if not (toks[0] in ("hwrite", "hflush", "hdrop", "hread", "hseek", "hreadtoend")):
                    continue
            line = ilines.get(("l", c.name, step))
            if not line:
                continue
            observer = toks[0] in OBSERVERS
            for item in line.split(" "):
                f = item.split(":")
                inst = int(f[0])
                if f[1] not in MUTATING:
                    continue
                bad = None
                if observer:
                    bad = "observer %s issued the mutating call %s to instance %d" % (toks[0], f[1], inst)
                elif inst in lows and not (shared and all(in_upper(g, inst, ph) for ph in (f[3:] if f[1] == "copy_file" else f[2:]))):
                    if inst != g.upper[0] or shared:
                        bad = "mutating call %s reached the lower layer instance %d" % (f[1], inst)
                if bad:
                    out.append({"case": c.name, "case_text": c.text(), "step": step, "op": op, "kind": "l",
                                "model": mlines.get(("l", c.name, step)), "impl": line, "violates": True, "note": bad})
                    break
        # the lower layers are unchanged, timestamps included (observed without opening files)
        for i in getattr(c, "first_tree", {}):
            if i == g.upper[0]:
                continue
            a = ilines.get(("r", c.name, c.first_tree[i]))
            b = ilines.get(("r", c.name, c.last_tree[i]))
            if a != b:
                only_atime = hist.strip_times(a or "") == hist.strip_times(b or "") and \
                    common_atime_only(a, b)
                out.append({"case": c.name, "case_text": c.text(), "step": c.last_tree[i], "op": "tree %d" % i, "kind": "r",
                            "model": a, "impl": b, "violates": True, "atime_only": only_atime,
                            "memfs_lower": not getattr(c, "has_phys", False) or c.cfg.kind == "ovl_mp" and False,
                            "note": "lower layer instance %d changed while the overlay was used%s" % (
                                i, " (access times only)" if only_atime else "")})
    return out


def common_atime_only(a, b):
    import re
    strip = lambda s: re.sub(r"(meta:(?:file|dir):\d+:[^:;|]+(?::-?\d+)?:[^:;|]+(?::-?\d+)?):[^;|]+", r"\1", s)
    return strip(a) == strip(b)


def known(d):
    # D20: MemoryFS::open_file stamps the access time of the file it opens, also in a lower layer
    if d.get("atime_only") and d.get("op", "").startswith("tree"):
        return "D20"
    return None


P = histprop.HistProp(
    "C08", CONFIGS, typed=False, with_times=True, project=project, want_logs=True, quick_cases=8, thorough_cases=100, nops=(8, 18),
    oracle=oracle, known=known, after_prepop=after_prepop, finish=finish, allow_big=False, prepop_density=0.7,
    corpus_cases=lambda: hist.lower_only_cases("c08", ["ovl_mm", "ovl_mmm", "ovl_pp", "ovl_alt", "ovl_lo_ovl", "ovl_psub"], stamp=True),
    rule=("DIRECTED: every one-path operation on a non-empty directory, a file, an empty directory and a nested directory "
          "that ONLY a lower layer holds, on five stackings - among them an overlay whose lower layer is itself an overlay, on "
          "which a wrongly routed remove_file of a directory would SUCCEED; RANDOM: untyped histories (successful and failing calls alike) through overlays of 2-3 memory/physical layers, layers that "
          "are sub-directories of one filesystem, altroot over overlay, overlay over altroots, overlay over overlay, with "
          "pre-populated lower layers whose entries carry an explicit access time; every call that reaches any layer is "
          "recorded by a wrapper (instance id, method, path) and compared with the model's call sequence; oracle on the "
          "implementation alone: no mutating method reaches a lower-layer instance (or a path outside the write "
          "sub-directory), observers issue no mutating method at all, and a stat-only snapshot of each lower layer "
          "before and after is identical including timestamps"),
    assumptions=["the recording wrapper sees trait calls; effects below the trait (MemoryFS::open_file stamping atime) are seen through the stat-only snapshots"])
generate, corpus, run_and_compare = P.generate, P.corpus, P.run_and_compare
RULE, ASSUMPTIONS, BUILDS = P.RULE, P.ASSUMPTIONS, P.BUILDS
