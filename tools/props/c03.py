"""C03 - the namespace is always a well-formed tree."""
import vfx
from props import hist, histprop, universe, c06

CONFIGS = hist.CONFIGS


def finish(c, g):
    names = c.names
    extra = []
    c.probe_steps = universe.add_probes(c, g.target, names, depth=2,
                                        extra=[(a, b, d) for a in names[:2] for b in names[:2] for d in names[:2]])


def oracle(cases, mlines, ilines):
    """on the implementation alone: every existing universe path has an existing parent that is a directory,
    and the root is an existing directory"""
    out = []
    for c in cases:
        ps = getattr(c, "probe_steps", None)
        if not ps:
            continue
        pr = {p: universe.parse_probe(ilines.get(("r", c.name, s))) for p, s in ps.items()}
        for p, r in pr.items():
            if r is None:
                continue
            if p == ():
                if r["exists"] != "ok:bool:1" or r["isdir"] != "ok:bool:1":
                    out.append(mk(c, ps[p], mlines, ilines, "the root is not an existing directory", p))
                continue
            if r["exists"] == "ok:bool:1":
                par = pr.get(p[:-1])
                if par is None:
                    continue
                if par["exists"] != "ok:bool:1" or par["isdir"] != "ok:bool:1":
                    out.append(mk(c, ps[p], mlines, ilines,
                                  "orphan: /%s exists but its parent is not an existing directory" % "/".join(p), p))
    return out


def mk(c, step, mlines, ilines, note, p):
    return {"case": c.name, "case_text": c.text(), "step": step, "op": c.ops[step], "kind": "r",
            "model": mlines.get(("r", c.name, step)), "impl": ilines.get(("r", c.name, step)), "violates": True,
            "note": note, "orphan": p, "cfg": c.cfg.kind}


def known(d):
    """D15: OverlayFS::remove_file on a directory that exists only in a lower layer succeeds (pinned by the
    existing test read_dir_removed_entries); its lower-layer children stay reachable by path"""
    p = d.get("orphan")
    if not d.get("cfg", "").startswith(("ovl", "alt_ovl")):
        return None
    # D31: layers that conflict in type (a file over a directory with children) - the orphan is there from the start
    if d.get("case", "").startswith("c03_typeconflict_") and p and tuple(p[:1]) == ("x",) and len(p) == 2:
        return "D31"
    if d.get("spec") and "contract says err for `removefile" in d.get("note", "") and "answered ok" in d.get("note", ""):
        return "D15"
    if not p:
        return None
    lines = d["case_text"].splitlines()
    for l in lines:
        t = l.split(" ")
        if len(t) >= 3 and t[0] == "op" and t[1] == "removefile":
            steps = t[2].split(":", 1)[1]
            comps = []
            for st in steps.split(","):
                if st.startswith("j"):
                    comps = c06.py_resolve(comps, vfx.unhex(st[1:]).decode("utf-8"))
            if tuple(comps) == tuple(p[:len(comps)]) and len(comps) < len(p) and comps:
                return "D15"
    return None


def corpus_cases():
    """handles that outlive their file (the path removed, re-created as a file or as a directory with children, its
    parent removed, then written / flushed / dropped) and every operation on every kind of target, wrong types
    included; each followed by probes of the whole universe"""
    kinds = ["mem", "phys", "alt_mem", "ovl_mm", "ovl_m", "ovl_sub", "alt_ovl"]
    cases = []
    for c in hist.stale_handle_cases("c03", kinds):
        c.probe_steps = universe.add_probes(c, c.cfg.target, ["a", "x", "c"], depth=2, extra=[("a", "x", "c"), ("a", "x", "x")])
        cases.append(c)
    for c in hist.matrix_cases("c03", kinds):
        c.probe_steps = universe.add_probes(c, c.cfg.target, ["d", "e", "f", "g", "m", "zz"], depth=2,
                                            extra=[("d", "e", "h"), ("d", "e", "in"), ("g", "zz", "d")])
        cases.append(c)
    for c in hist.type_conflict_cases("c03"):
        c.probe_steps = universe.add_probes(c, c.cfg.target, ["x", "c"], depth=2)
        cases.append(c)
    for c in hist.neighbour_name_cases("c03", ["mem", "alt_mem", "ovl_mm", "ovl_m"]):
        c.probe_steps = universe.add_probes(c, c.cfg.target, ["docs", "readme", "deep", "docs.d"], depth=2,
                                            extra=[("docs", "deep", "er"), ("docs", "deep", "er", "f"), ("docs.d", "inner")])
        cases.append(c)
    return cases


class P3(histprop.HistProp):
    def generate(self, rng, tier):
        n = self.quick_cases if tier == "quick" else self.thorough_cases
        cases = []
        for kind in self.configs:
            for i in range(n):
                c = vfx.Case("c03_%s_%d" % (kind, i))
                g = hist.build_config(c, kind, rng)
                c.cfg = g
                c.names = rng.sample(hist.NAMES, 3)
                hist.gen_history(c, g, rng, rng.randint(*self.nops), typed=False, names=c.names,
                                 allow_big=False, prepop_density=0.6, hostile=0.15)
                finish(c, g)
                cases.append(c)
        return cases


P = P3("C03", CONFIGS, typed=False, corpus_cases=corpus_cases, quick_cases=8, thorough_cases=100, nops=(10, 22), oracle=oracle, known=known,
       rule=("untyped histories (every call on every path of a 3-name universe, file calls on directories and directory "
             "calls on files included; removal of the root excluded) on all 15 configurations with pre-populated lower "
             "layers; after each history every universe path of depth <= 2 (and a depth-3 sample) is probed with all "
             "observers; oracle on the implementation alone: the root is an existing directory and every existing path "
             "has an existing parent directory; all outcomes and snapshots are also compared with the model"),
       assumptions=["random histories keep C01's write-handle exclusion; the directed corpus does not (handles outliving "
                    "their file in five ways on seven configurations)"])
generate, corpus, run_and_compare = P.generate, P.corpus, P.run_and_compare
RULE, ASSUMPTIONS, BUILDS = P.RULE, P.ASSUMPTIONS, P.BUILDS
