"""C03 - the namespace is always a well-formed tree."""
import vfx
from props import hist, histprop, universe, c06

CONFIGS = hist.CONFIGS


def finish(c, g):
    names = c.names
    extra = []
    c.probe_steps = universe.add_probes(c, g.target, names, depth=2,
                                        extra=[(a, b, d) for a in names[:2] for b in names[:2] for d in names[:2]])


def oracle(cases, mlines, ilines):
    """on the implementation alone: every existing universe path has an existing parent that is a directory,
    and the root is an existing directory"""
    out = []
    for c in cases:
        ps = getattr(c, "probe_steps", None)
        if not ps:
            continue
        pr = {p: universe.parse_probe(ilines.get(("r", c.name, s))) for p, s in ps.items()}
        for p, r in pr.items():
            if r is None:
                continue
            if p == ():
                if r["exists"] != "ok:bool:1" or r["isdir"] != "ok:bool:1":
                    out.append(mk(c, ps[p], mlines, ilines, "the root is not an existing directory", p))
                continue
            if r["exists"] == "ok:bool:1":
                par = pr.get(p[:-1])
                if par is None:
                    continue
                if par["exists"] != "ok:bool:1" or par["isdir"] != "ok:bool:1":
                    out.append(mk(c, ps[p], mlines, ilines,
                                  "orphan: /%s exists but its parent is not an existing directory" % "/".join(p), p))
    return out


def mk(c, step, mlines, ilines, note, p):
    return {"case": c.name, "case_text": c.text(), "step": step, "op": c.ops[step], "kind": "r",
            "model": mlines.get(("r", c.name, step)), "impl": ilines.get(("r", c.name, step)), "violates": True,
            "note": note, "orphan": p, "cfg": c.cfg.kind}


def known(d):
    """D15: OverlayFS::remove_file on a directory that exists only in a lower layer succeeds (pinned by the
    existing test read_dir_removed_entries); its lower-layer children stay reachable by path"""
    p = d.get("orphan")
    if not d.get("cfg", "").startswith(("ovl", "alt_ovl")):
        return None
    # D31: layers that conflict in type (a file over a directory with children) - the orphan is there from the start
    if d.get("case", "").startswith("c03_typeconflict_") and p and tuple(p[:1]) == ("x",) and len(p) == 2:
        return "D31"
    if d.get("spec") and "contract says err for `removefile" in d.get("note", "") and "answered ok" in d.get("note", ""):
        return "D15"
    if not p:
        return None
    lines = d["case_text"].splitlines()
    for l in lines:
        t = l.split(" ")
        if len(t) >= 3 and t[0] == "op" and t[1] == "removefile":
            steps = t[2].split(":", 1)[1]
            comps = []
            for st in steps.split(","):
                if st.startswith("j"):
                    comps = c06.py_resolve(comps, vfx.unhex(st[1:]).decode("utf-8"))
            if tuple(comps) == tuple(p[:len(comps)]) and len(comps) < len(p) and comps:
                return "D15"
    return None


def corpus_cases():
    """handles that outlive their file (the path removed, re-created as a file or as a directory with children, its
    parent removed, then written / flushed / dropped) and every operation on every kind of target, wrong types
    included; each followed by probes of the whole universe"""
    kinds = ["mem", "phys", "alt_mem", "ovl_mm", "ovl_m", "ovl_sub", "alt_ovl"]
    cases = []
    for c in hist.stale_handle_cases("c03", kinds):
        c.probe_steps = universe.add_probes(c, c.cfg.target, ["a", "x", "c"], depth=2, extra=[("a", "x", "c"), ("a", "x", "x")])
        cases.append(c)
    for c in hist.matrix_cases("c03", kinds):
        c.probe_steps = universe.add_probes(c, c.cfg.target, ["d", "e", "f", "g", "m", "zz"], depth=2,
                                            extra=[("d", "e", "h"), ("d", "e", "in"), ("g", "zz", "d")])
        cases.append(c)
    for c in hist.type_conflict_cases("c03"):
        c.probe_steps = universe.add_probes(c, c.cfg.target, ["x", "c"], depth=2)
        cases.append(c)
    for c in hist.neighbour_name_cases("c03", ["mem", "alt_mem", "ovl_mm", "ovl_m"]):
        c.probe_steps = universe.add_probes(c, c.cfg.target, ["docs", "readme", "deep", "docs.d"], depth=2,
                                            extra=[("docs", "deep", "er"), ("docs", "deep", "er", "f"), ("docs.d", "inner")])
        cases.append(c)
    return cases


class P3(histprop.HistProp):
    def generate(self, rng, tier):
        n = self.quick_cases if tier == "quick" else self.thorough_cases
        cases = []
        for kind in self.configs:
            for i in range(n):
                c = vfx.Case("c03_%s_%d" % (kind, i))
                g = hist.build_config(c, kind, rng)
                c.cfg = g
                c.names = rng.sample(hist.NAMES, 3)
                hist.gen_history(c, g, rng, rng.randint(*self.nops), typed=False, names=c.names,
                                 allow_big=False, prepop_density=0.6, hostile=0.15)
                finish(c, g)
                cases.append(c)
        return cases


P = P3("C03", CONFIGS, typed=False, corpus_cases=corpus_cases, quick_cases=8, thorough_cases=100, nops=(10, 22), oracle=oracle, known=known,
       rule=("untyped histories (every call on every path of a 3-name universe, file calls on directories and directory "
             "calls on files included; removal of the root excluded) on all 15 configurations with pre-populated lower "
             "layers; after each history every universe path of depth <= 2 (and a depth-3 sample) is probed with all "
             "observers; oracle on the implementation alone: the root is an existing directory and every existing path "
             "has an existing parent directory; all outcomes and snapshots are also compared with the model"),
       assumptions=["random histories keep C01's write-handle exclusion; the directed corpus does not (handles outliving "
                    "their file in five ways on seven configurations)"])
generate, corpus = P.generate, P.corpus


def concurrent_orphans(tier):
    """the tree invariant under interleaving: entries created below a directory while another thread removes it (or
    replaces it by a file) - after every schedule, every entry of the final snapshot has a directory for a parent"""
    from props import conclib
    cfg = ["base mem", "fs base 0"]
    cfgs = {"mem": (cfg, 0, ["createdir 0:j61"]),
            "alt": (["base mem", "fs base 0", "fs alt 0 " + vfx.hexs("/r")], 1, ["createdirall 0:j72", "createdir 1:j61"])}
    progs = []
    for cname, (cf, t, setup) in cfgs.items():
        def ps(q):
            return vfx.ps(t, q)
        # the creating thread ends by asking for its entry and then for the entry's parent: "the child exists, its parent
        # does not" is an orphan seen by a caller (an orphan is unreachable by listings, so the final snapshot cannot show it)
        specs = [
            [["createfile " + ps("a/f"), "hwrite 0 78", "hdrop 0", "exists " + ps("a/f"), "isdir " + ps("a")], ["removedir " + ps("a")]],
            [["createdir " + ps("a/b"), "exists " + ps("a/b"), "isdir " + ps("a")], ["removedir " + ps("a")]],
            [["createfile " + ps("a/f"), "hwrite 0 78", "hdrop 0", "exists " + ps("a/f"), "isdir " + ps("a")],
             ["removedir " + ps("a"), "createfile " + ps("a"), "hdrop 1"]],
            [["createdirall " + ps("a/b/c"), "exists " + ps("a/b/c"), "isdir " + ps("a/b")], ["removedir " + ps("a")]],
        ]
        for i, threads in enumerate(specs):
            progs.append(conclib.Prog("c03c_%s_%d" % (cname, i), cf, setup, threads, "explore 4000"))
    explored = conclib.explore(progs, "c03c")
    by = {p.name: p for p in progs}
    out, n = [], 0
    for name, d in explored.items():
        for sch, rest in d["runs"]:
            n += 1
            if "DEADLOCK" in rest or " || " not in rest:
                continue
            t0 = rest.split(" :: ", 1)[1].split(" || ")[0].split(" | ")[0].split(";")
            if len(t0) >= 2 and t0[-2].strip() == "ok:bool:1" and t0[-1].strip() == "ok:bool:0" and not any(x["case"] == name for x in out):
                out.append({"case": name, "case_text": by[name].text(schedule=sch), "step": None, "op": "schedule " + sch,
                            "model": None, "impl": rest, "violates": True, "cfg": "conc",
                            "note": "orphan seen by its creator under a concurrent schedule: the entry exists, its parent is not a directory"})
            snap = rest.split(" || ", 1)[1]
            ents = histprop.snap_entries(snap) or []
            dirs = set(vfx.unhex(e[0]).decode("utf-8", "replace") for e in ents if e[0] != "-" and ":dir:" in e[1])
            allp = [vfx.unhex(e[0]).decode("utf-8", "replace") for e in ents if e[0] != "-" and e[1].startswith("ok:meta")]
            for q in allp:
                par = q.rsplit("/", 1)[0]
                if par and par not in dirs and not any(x["case"] == name for x in out):
                    out.append({"case": name, "case_text": by[name].text(schedule=sch), "step": None, "op": "schedule " + sch,
                                "model": None, "impl": rest, "violates": True, "cfg": "conc",
                                "note": "orphan after a concurrent schedule: %s exists, its parent is not a directory" % q})
    return out, n


def run_and_compare(cases, tier):
    res = P.run_and_compare(cases, tier)
    dis, n = concurrent_orphans(tier)
    res["disagreements"] = res["disagreements"] + dis
    res["stats"].setdefault("distribution", {})["concurrent_schedules_checked_for_orphans"] = n
    return res
ASSUMPTIONS, BUILDS = P.ASSUMPTIONS, P.BUILDS
RULE = P.RULE + ("; CONCURRENT: entries created below a directory while another thread removes it or replaces it by a file "
                 "(MemoryFS and an altroot over it, all schedules at lock granularity): after every schedule every entry of the "
                 "final snapshot has a directory for a parent")
