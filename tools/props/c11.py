"""C11 - recursive and transfer operations are exact, within and across filesystems."""
import vfx
from props import hist, histprop, spec, c03

CONFIGS = hist.CONFIGS
MIX = (["createdirall"] * 3 + ["removedirall"] * 3 + ["copyfile"] * 3 + ["movefile"] * 3 + ["copydir"] * 4 + ["movedir"] * 4
       + ["createfile"] * 4 + ["createdir"] * 3 + ["append", "removefile", "walkdir", "readdir"])
# names chosen so that children start with their parent's name
NAMESETS = [["data", "data.bin", "database", "d"], ["pkg", "pkg2", "p", "pkg.x"], ["a", "ab", "a.b", "abc"], ["é", "éé", "日", "é日"]]


def cross_cases(rng, tier):
    """transfers between every ordered pair of instances"""
    n = 3 if tier == "quick" else 30
    cases = []
    for i in range(n):
        c = vfx.Case("c11x_%d" % i)
        for b in ("mem", "mem", "phys", "phys", "mem", "mem", "mem"):
            c.base(b)
        for j in range(7):
            c.fs("base", j)
        insts = [0, 1, 2, 3]
        c.op("createdirall", vfx.ps(4, "r"))
        insts.append(c.fs("alt", 4, vfx.hexs("/r")))          # an altroot with its own underlying filesystem
        insts.append(c.fs("ovl", 2, 5, "-", 6, "-"))          # an overlay with its own two layers
        c.has_phys = True
        c.cross = []
        names = rng.choice(NAMESETS)
        for src in insts:
            # a source tree and a source file on every instance
            root = "s%d" % src
            c.op("createdirall", vfx.ps(src, root + "/" + names[0] + "/" + names[0]))
            c.op("createdirall", vfx.ps(src, root + "/empty"))
            hist.write_file(c, src, root + "/" + names[0] + "/" + names[1], hist.pick_content(rng, False))
            hist.write_file(c, src, root + "/" + names[2], hist.pick_content(rng, True))
            hist.write_file(c, src, root + "/" + names[0] + "/" + names[0] + "/" + names[3], b"\x00\xff deep")
        for src in insts:
            for dst in insts:
                root = "s%d" % src
                op = rng.choice(["copydir", "copydir", "movedir", "copyfile", "movefile"])
                if op in ("copydir", "movedir"):
                    s, d = root + "/" + names[0], "from%d_%s" % (src, op)
                else:
                    s, d = root + "/" + names[2], "file%d_%s" % (src, op)
                before_s = c.op("snap", src)
                before_d = c.op("snap", dst) if dst != src else before_s
                step = c.op(op, vfx.ps(src, s), vfx.ps(dst, d))
                after_s = c.op("snap", src)
                after_d = c.op("snap", dst) if dst != src else after_s
                c.cross.append((op, src, dst, s, d, before_s, before_d, step, after_s, after_d))
                if op.startswith("move"):
                    # put the source back for the next pair
                    if op == "movedir":
                        c.op("movedir", vfx.ps(dst, d), vfx.ps(src, s))
                    else:
                        c.op("movefile", vfx.ps(dst, d), vfx.ps(src, s))
                # an existing destination is refused without side effects
                c.op(op if op.startswith("copy") else op.replace("move", "copy"), vfx.ps(src, s), vfx.ps(dst, d if op.startswith("copy") else "s%d" % dst))
        cases.append(c)
    return cases


def tup(path):
    return tuple(x for x in path.split("/") if x)


def cross_oracle(cases, mlines, ilines):
    out = []
    for c in cases:
        for (op, src, dst, s, d, bs, bd, step, as_, ad) in getattr(c, "cross", []):
            t_s = spec.tree_of_snapshot(ilines.get(("r", c.name, bs)))
            t_d = spec.tree_of_snapshot(ilines.get(("r", c.name, bd)))
            a_s = spec.tree_of_snapshot(ilines.get(("r", c.name, as_)))
            a_d = spec.tree_of_snapshot(ilines.get(("r", c.name, ad)))
            line = ilines.get(("r", c.name, step)) or ""
            if None in (t_s, t_d, a_s, a_d):
                continue
            sp, dp = tup(s), tup(d)
            sub = {q[len(sp):]: v for q, v in t_s.items() if q[:len(sp)] == sp}
            exp_d = dict(t_d)
            exp_s = dict(t_s)
            if src == dst:
                exp_d = exp_s
            for q, v in sub.items():
                exp_d[dp + q] = v
            if op.startswith("move"):
                for q in list(exp_s):
                    if q[:len(sp)] == sp:
                        del exp_s[q]
            bad = None
            if not line.startswith("ok"):
                bad = "%s from instance %d to instance %d failed: %s" % (op, src, dst, line[:100])
            elif op == "copydir" and line != "ok:n:%d" % (len(sub) - 1):
                bad = "copy_dir returned %s for a source tree of %d entries" % (line, len(sub) - 1)
            elif a_d != exp_d:
                diff = sorted(set(a_d) ^ set(exp_d)) + sorted(q for q in set(a_d) & set(exp_d) if a_d[q] != exp_d[q])
                bad = "destination differs from a byte-identical, structure-identical copy at %r" % (["/" + "/".join(q) for q in diff][:4],)
            elif a_s != (exp_d if src == dst else exp_s):
                bad = "source filesystem changed unexpectedly"
            if bad:
                out.append({"case": c.name, "case_text": c.text(), "step": step, "op": c.ops[step], "kind": "r",
                            "model": mlines.get(("r", c.name, step)), "impl": line, "violates": True,
                            "note": "transfer %s instance %d -> instance %d: %s" % (op, src, dst, bad)})
    return out


class P11(histprop.HistProp):
    def generate(self, rng, tier):
        n = self.quick_cases if tier == "quick" else self.thorough_cases
        cases = []
        for kind in self.configs:
            for i in range(n):
                c = vfx.Case("c11_%s_%d" % (kind, i))
                g = hist.build_config(c, kind, rng)
                c.cfg = g
                hist.gen_history(c, g, rng, rng.randint(*self.nops), typed=True, names=list(rng.choice(NAMESETS)), mix=MIX,
                                 prepop_density=0.6, allow_big=True)
                cases.append(c)
        return cases + cross_cases(rng, tier)

    def corpus(self):
        composite = ("_removedirall_", "_createdirall_", "_copyfile_", "_movefile_", "_copydir_", "_movedir_")
        # every composite on every kind of target (absent, below a file at two depths, wrong types), every backend
        mx = [c for c in hist.matrix_cases("c11", ["mem", "phys", "alt_phys", "ovl_mm", "ovl_pp"]) if any(k in c.name for k in composite)]
        return list(super().corpus()) + mx + hist.size_cases("c11", ["mem", "phys", "alt_phys", "ovl_mm", "ovl_mp"]) + \
            hist.deep_tree_cases("c11", ["mem", "phys", "alt_phys", "ovl_mm", "ovl_mp"])


P = P11("C11", CONFIGS, typed=True, mix=MIX, quick_cases=6, thorough_cases=80, nops=(12, 24), use_spec=True,
        oracle=cross_oracle, known=c03.known,
        rule=("composite-heavy typed histories (create_dir_all, remove_dir_all, copy_file, move_file, copy_dir, move_dir; "
              "destinations outside the source subtree; existing destinations) on all 15 configurations over name sets in which "
              "children start with their parent's name (data/data.bin, pkg/pkg2, a/ab, multi-byte), checked after every call "
              "against the abstract contracts by the model-independent oracle (exact subtree, copy_dir's count, source untouched "
              "or gone); plus transfers of a source tree (nested, empty directory, binary and 8 KiB-boundary files) between "
              "EVERY ordered pair of six instances (two MemoryFS, two PhysicalFS, an altroot, an overlay), each compared with a "
              "byte-identical structure-identical copy computed from the snapshots before the call; all compared with the model"),
        assumptions=["copy_dir/move_dir into the source's own subtree is excluded (documented non-termination)"])
generate, corpus, run_and_compare, known = P.generate, P.corpus, P.run_and_compare, P.known
RULE, ASSUMPTIONS, BUILDS = P.RULE, P.ASSUMPTIONS, P.BUILDS
