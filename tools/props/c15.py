"""C15 - the async port is behaviourally identical to the sync API."""
import os
import subprocess
from concurrent.futures import ThreadPoolExecutor
import vfx
from props import hist, histprop, common

CONFIGS = ["mem", "phys", "alt_mem", "alt_phys", "alt_alt", "ovl_mm", "ovl_mmm", "ovl_pp", "ovl_mp", "ovl_sub", "alt_ovl",
           "ovl_alt", "ovl_ovl"]


PHYS_BACKED = ("phys", "alt_phys", "ovl_pp", "ovl_mp")


def gen_cases(rng, tier):
    n = 8 if tier == "quick" else 100
    cases = []
    for kind in CONFIGS:
        for i in range(n):
            c = vfx.Case("c15_%s_%d" % (kind, i))
            g = hist.build_config(c, kind, rng)
            c.cfg = g
            hist.gen_history(c, g, rng, rng.randint(10, 22), typed=(rng.random() < 0.6), allow_big=True, with_times=False,
                             writer_seeks=False, writer_flushes=False, prepop_density=0.6)
            t = g.target
            c.op("walkdir", "%d:" % t)
            # read handles: the async reader must deliver the same data as the sync reader
            names = sorted(q for q in c.tree.files)
            if names:
                f = rng.choice(names)
                r = c.op("openfile", vfx.ps(t, hist.rel(f)))
                L = len(c.tree.files[f])
                for _ in range(6):
                    x = rng.random()
                    if x < 0.5:
                        # single reads may legally be short (async_std serves them from its cache), so data is
                        # compared with "read until n bytes or the end" on files of the operating system; a read
                        # into an empty buffer is kept out of those scripts (finding D27)
                        if kind in PHYS_BACKED:
                            c.op("hreadn", r, rng.choice([1, 3, L, L + 2, 4096]))
                        else:
                            c.op("hread", r, rng.choice([0, 1, 3, L, L + 2, 4096]))
                    elif x < 0.7:
                        c.op("hseek", r, "s", rng.choice([0, 1, max(L - 1, 0), L, L + 3]))
                    elif x < 0.85:
                        c.op("hseek", r, "c", rng.choice([0, 1, -1, -L - 1, 2]))
                    else:
                        c.op("hseek", r, "e", rng.choice([0, -1, 1, -L, -L - 1]))
                c.op("hreadtoend", r)
                c.op("hdrop", r)
            # a walk whose entries vanish behind the iterator's back: the items whose metadata lookup then
            # fails are errors, once each, and the stream goes on (sync iterator and async stream alike)
            victims = [q for q in list(c.tree.dirs) + list(c.tree.files) if q]
            if victims:
                q = rng.choice(victims)
                start = rng.choice([(), q[:-1], q[:1]]) if rng.random() < 0.6 else ()
                c.op("walkrm", vfx.ps(t, hist.rel(start)) if start else "%d:" % t, rng.choice([0, 0, 1, 2, 3]),
                     vfx.ps(t, hist.rel(q)))
                c.op("snap", t)
            cases.append(c)
    # the two recorded differences of the in-memory backend, kept visible
    for i in range(2):
        c = vfx.Case("c15_flush_%d" % i)
        g = hist.build_config(c, "mem", rng)
        c.cfg = g
        w = c.op("createfile", vfx.ps(0, "f"))
        c.op("hwrite", w, vfx.hexs(b"flushed bytes"))
        c.op("hflush", w)
        c.op("readtostring", vfx.ps(0, "f"))
        c.op("hdrop", w)
        c.op("readtostring", vfx.ps(0, "f"))
        cases.append(c)
        c = vfx.Case("c15_zeroread_%d" % i)
        g = hist.build_config(c, "phys", rng)
        c.cfg = g
        hist.write_file(c, 0, "f", b"0123456789")
        r = c.op("openfile", vfx.ps(0, "f"))
        c.op("hread", r, 3)
        c.op("hread", r, 0)
        c.op("hread", r, 4)
        c.op("hdrop", r)
        cases.append(c)
        c = vfx.Case("c15_times_%d" % i)
        g = hist.build_config(c, "mem", rng)
        c.cfg = g
        hist.write_file(c, 0, "f", b"x")
        for k in ("setctime", "setmtime", "setatime"):
            c.op(k, vfx.ps(0, "f"), 12345)
        cases.append(c)
    return cases


def _run(args):
    p = subprocess.run(args, stdout=subprocess.PIPE, stderr=subprocess.PIPE, text=True, timeout=3000)
    return p.returncode, p.stdout, p.stderr


def run_variants(cases, tag, seed=1):
    """sync harness, async harness, async harness with injected Pendings, async model under an oracle"""
    os.makedirs(vfx.WORK, exist_ok=True)
    model = vfx.build_model()
    exe = os.path.join(vfx.HARNESS, "target", "debug", "vfsx")
    text = "".join(c.text() for c in cases)
    pieces, _ = vfx.split_cases(text, vfx.NPROC)
    jobs = []
    for i, p in enumerate(pieces):
        f = os.path.join(vfx.WORK, "%s_%d.cases" % (tag, i))
        open(f, "w").write(p)
        jobs += [[exe, f], [exe, "--async", f], [exe, "--async", f, "--pending"], [model, "--async", str(seed), f]]
    with ThreadPoolExecutor(max_workers=vfx.NPROC) as ex:
        res = list(ex.map(_run, jobs))
    outs = [{}, {}, {}, {}]
    for j, (rc, so, se) in enumerate(res):
        if rc != 0:
            raise RuntimeError("harness variant failed: %s %s" % (jobs[j], se[-1500:]))
        for line in so.splitlines():
            parts = line.split(" ", 3)
            if len(parts) == 4:
                outs[j % 4][(parts[0], parts[1], int(parts[2]))] = parts[3]
    for i in range(len(pieces)):
        os.remove(os.path.join(vfx.WORK, "%s_%d.cases" % (tag, i)))
    return outs


def view(line):
    if line is None:
        return None
    return hist.strip_times(line)


def known(d):
    """the recorded findings, each identified by its script and the step at which the two worlds part"""
    op = (d.get("op") or "").split(" ")[0]
    if d["case"].startswith("c15_flush_") and d.get("step") == 3 and op == "readtostring":
        return "D23b"
    if op in ("setctime", "setmtime", "setatime") and (d.get("impl") or "").startswith("err:NotSupported") and \
            "async differs from sync" in d.get("note", "") and not any("base phys" in l for l in d.get("case_text", "").splitlines()):
        return "D23a"      # a time setter that reaches an async MemoryFS: it implements none
    if d["case"].startswith("c15_zeroread_") and d.get("step") == 6 and op == "hread":
        return "D27"
    return None


RULE = ("the same generated history (60% typed, 40% untyped; contents up to 70 kB; no seeks on write handles, which the async "
        "API does not offer) is run through the sync API, through the async port on a single-threaded executor, and through "
        "the async port with every trait call returning Poll::Pending 0-3 times first, on 13 configurations available in both "
        "worlds (memory, physical, altroot, overlay, stackings); compared step by step: outcome, error kind and path, returned "
        "values, full snapshot, the items of walk_dir, the data of read/seek scripts on read handles, and the sequence of "
        "trait calls that reach every instance; timestamps are not compared (the async MemoryFS has none: known finding)")
ASSUMPTIONS = ["executors, spawn_blocking and async_std::fs are the runtime's: one executor (tokio current-thread) is used",
               "the pending schedules are those of the wrapper (deterministic 0-3 Pendings per trait call), not all schedules"]
BUILDS = [False]


def c04_sessions():
    """write sessions ended by drop or by an explicit AsyncWrite::close (a no-op in the sync world) before the drop"""
    from props import c04
    return c04.async_sessions()


def cross_instance_cases():
    """every transfer between every ordered pair of DIFFERENT instances (a MemoryFS, two PhysicalFS roots, an altroot over
    a sub-directory of the first physical root): a backend's native rename / copy applies within one instance only"""
    cases = []
    for opk in ("copyfile", "movefile", "copydir", "movedir"):
        c = vfx.Case("c15_cross_%s" % opk)
        for b in ("mem", "phys", "phys"):
            c.base(b)
        insts = [c.fs("base", j) for j in range(3)]
        c.op("createdirall", vfx.ps(insts[1], "r"))
        insts.append(c.fs("alt", insts[1], vfx.hexs("/r")))
        c.has_phys = True
        g = hist.Cfg(); g.kind = "cross"; g.target = insts[0]; g.watch = insts; g.has_phys = True
        c.cfg = g
        n = 0
        for src in insts:
            for dst in insts:
                if src == dst:
                    continue
                n += 1
                sname, dname = "s%d" % n, "d%d" % n
                if opk in ("copyfile", "movefile"):
                    hist.write_file(c, src, sname, b"payload %d" % n)
                    # a file of the destination's name inside the SOURCE instance must stay untouched
                    hist.write_file(c, src, dname, b"bystander %d" % n)
                else:
                    c.op("createdirall", vfx.ps(src, sname + "/sub"))
                    hist.write_file(c, src, sname + "/sub/f", b"payload %d" % n)
                c.op(opk, vfx.ps(src, sname), vfx.ps(dst, dname))
                c.op("snap", src); c.op("snap", dst)
                # ... and into a directory that exists in the destination instance only
                c.op("createdirall", vfx.ps(dst, "only%d" % n))
                if opk in ("copyfile", "movefile"):
                    hist.write_file(c, src, sname + "b", b"second %d" % n)
                    c.op(opk, vfx.ps(src, sname + "b"), vfx.ps(dst, "only%d/x" % n))
                else:
                    c.op("createdirall", vfx.ps(src, sname + "b/sub"))
                    c.op(opk, vfx.ps(src, sname + "b"), vfx.ps(dst, "only%d/x" % n))
                c.op("snap", src); c.op("snap", dst)
        cases.append(c)
    return cases


def corpus():
    """every operation on every kind of target, on both worlds"""
    stale = [c for c in hist.stale_handle_cases("c15", ["mem", "alt_mem", "ovl_mm"]) if not c.name.endswith("flush_drop")]
    return hist.matrix_cases("c15", ["mem", "phys", "alt_mem", "ovl_mm", "ovl_pp"]) + stale + \
        hist.open_handle_cases("c15", ["mem", "alt_mem", "ovl_mm", "ovl_m"]) + c04_sessions() + \
        hist.wo_names_cases("c15", ("ovl_mm", "ovl_sub", "ovl_mmm", "alt_ovl")) + \
        hist.reader_seek_cases("c15", ["mem", "alt_mem", "ovl_mm", "phys"]) + \
        hist.neighbour_name_cases("c15", ["mem", "ovl_mm"]) + \
        hist.deleted_target_cases("c15") + hist.dotted_name_cases("c15", ["alt_mem", "alt_alt"]) + \
        hist.size_cases("c15", ["mem", "ovl_mm"]) + hist.lower_only_cases("c15", ["ovl_mm", "ovl_mmm"]) + \
        hist.odd_join_cases("c15", ["alt_mem", "alt_alt"]) + cross_instance_cases()


def generate(rng, tier):
    return gen_cases(rng, tier)


def run_and_compare(cases, tier):
    sync, asy, pend, amodel = run_variants(cases, "c15", seed=len(cases))
    by = {c.name: c for c in cases}
    dis = []
    seen = set()
    evals = 0
    for k in sorted(set(sync) | set(asy) | set(pend), key=lambda k: (k[1], k[2], k[0])):
        kind, cname, step = k
        if cname in seen:
            continue
        c = by[cname]
        evals += 1
        s, a, p = view(sync.get(k)), view(asy.get(k)), view(pend.get(k))
        if s != a or a != p:
            seen.add(cname)
            which = "async differs from sync" if s != a else "async with injected Pending differs from async without"
            dis.append({"case": cname, "case_text": c.text(), "step": step, "op": c.ops[step] if step < c.nops else "",
                        "kind": kind, "model": sync.get(k), "impl": asy.get(k) if s != a else pend.get(k), "violates": True,
                        "note": "%s at `%s`: sync %s / async %s" % (which, (c.ops[step] if step < c.nops else "")[:60],
                                                                     (s or "")[:120], ((a if s != a else p) or "")[:120])})
    # the async model (futures polled under an oracle, walk_dir through the stream state machine) against the
    # async implementation with injected Pendings: outcomes in the contract view, trait-call sequences exactly
    for k in sorted(set(pend) | set(amodel), key=lambda k: (k[1], k[2], k[0])):
        kind, cname, step = k
        if cname in seen:
            continue
        c = by[cname]
        a, m = pend.get(k), amodel.get(k)
        if kind == "r":
            a, m = histprop.contract_view(a), histprop.contract_view(m)
        if a != m:
            seen.add(cname)
            dis.append({"case": cname, "case_text": c.text(), "step": step, "op": c.ops[step] if step < c.nops else "",
                        "kind": kind, "model": amodel.get(k), "impl": pend.get(k), "violates": True,
                        "note": "async implementation deviates from the async model at `%s`: impl %s / model %s" % (
                            (c.ops[step] if step < c.nops else "")[:60], (a or "")[:120], (m or "")[:120])})
    # the sync side against the model (the async side is compared with the sync side above)
    dis2, mlines, ilines = common.run_cases(cases, "c15m", lambda kind, case, step, op, line: histprop.contract_view(line))
    for d in dis2:
        d["violates"] = True
        d["note"] = "sync implementation deviates from the model: " + str(d.get("pi"))[:150]
    distinct = set()
    for c in cases:
        outs = [asy.get(("r", c.name, s)) for s in range(c.nops)]
        ok = sum(1 for o in outs if o and o.startswith("ok"))
        er = sum(1 for o in outs if o and o.startswith("err"))
        if ok >= 3 and er >= 1:
            distinct.add(vfx.digest("|".join(o or "" for o in outs)))
    stats = {"evaluations": evals, "distinct_nontrivial": len(distinct),
             "samples": [{"case": cases[0].name, "ops": cases[0].ops[:10],
                          "async_outcomes": [(asy.get(("r", cases[0].name, s)) or "")[:100] for s in range(min(10, cases[0].nops))]}],
             "distribution": {"cases": len(cases), "lines_compared_sync_async_pending": evals}}
    return {"disagreements": dis + dis2, "stats": stats}
