"""C16 - MemoryFS is linearizable under concurrent use."""
import itertools
import vfx
from props import conclib, hist

CFG = ["base mem", "fs base 0"]
PATHS = ["a", "a/b", "a/f", "f"]


def call_ops(rng, kind, path, base_idx):
    """one API 'call' of the property's call set as harness ops (create_file+write and append are
    three-call fragments: open, write, drop)"""
    p = vfx.ps(0, path)
    if kind == "create_dir":
        return ["createdir " + p]
    if kind == "create_file":
        return ["createfile " + p, "hwrite %d %s" % (base_idx, vfx.hexs(rng.choice([b"x", b"hello"]))), "hdrop %d" % base_idx]
    if kind == "append":
        return ["appendfile " + p, "hwrite %d %s" % (base_idx, vfx.hexs(b"+")), "hdrop %d" % base_idx]
    if kind == "open_read":
        return ["openfile " + p, "hreadtoend %d" % base_idx, "hdrop %d" % base_idx]
    if kind == "set_mtime":
        return ["setmtime %s 4242" % p]
    return ["%s %s" % ({"remove_file": "removefile", "remove_dir": "removedir", "exists": "exists",
                        "metadata": "metadata", "read_dir": "readdir"}[kind], p)]


KINDS = ["create_dir", "create_file", "append", "remove_file", "remove_dir", "exists", "metadata", "read_dir", "open_read"]
SETUPS = [[], ["createdir 0:j61"], ["createdir 0:j61", "createdir 0:j612f62"],
          ["createdir 0:j61", "createfile 0:j612f66", "hwrite 1001 6f6c64", "hdrop 1001"],
          ["createfile 0:j66", "hwrite 1000 6f6c64", "hdrop 1000"], ["createfile 0:j66", "hdrop 1000"]]


def gen_progs(rng, tier):
    progs = []
    # the directed family around the check-then-act windows, then random small programs
    directed = [
        (["createdir 0:j61"], [["create_dir", "a/b"]], [["remove_dir", "a"]]),
        (["createdir 0:j61"], [["create_file", "a/f"]], [["remove_dir", "a"]]),
        (["createdir 0:j61"], [["create_dir", "a/b"]], [["remove_dir", "a"], ["create_file", "a"]]),
        (["createdir 0:j61"], [["create_file", "a/f"]], [["remove_dir", "a"], ["create_file", "a"]]),
        (["createdir 0:j61", "createfile 0:j612f66", "hdrop 1001"], [["remove_file", "a/f"], ["remove_dir", "a"]], [["append", "a/f"]]),
        (["createdir 0:j61"], [["create_dir", "a/b"], ["remove_dir", "a/b"]], [["read_dir", "a"], ["exists", "a/b"]]),
        (["createfile 0:j66", "hdrop 1000"], [["append", "f"]], [["append", "f"]]),
        (["createfile 0:j66", "hdrop 1000"], [["create_file", "f"]], [["open_read", "f"], ["metadata", "f"]]),
        # the same on a file that HAS content: what is committed stays visible while handles are in flight
        (["createfile 0:j66", "hwrite 1000 6f6c64", "hdrop 1000"], [["append", "f"]], [["append", "f"]]),
        (["createfile 0:j66", "hwrite 1000 6f6c64", "hdrop 1000"], [["append", "f"]], [["open_read", "f"], ["metadata", "f"]]),
        (["createfile 0:j66", "hwrite 1000 6f6c64", "hdrop 1000"], [["create_file", "f"]], [["open_read", "f"], ["append", "f"]]),
        (["createfile 0:j66", "hwrite 1000 6f6c64", "hdrop 1000"], [["append", "f"]], [["append", "f"]], [["metadata", "f"]]),
        # a writer that publishes late, while the other thread replaces its file by a directory with a child
        ([], [["create_file", "a"]], [["remove_file", "a"], ["create_dir", "a"], ["create_file", "a/b"]]),
        (["createfile 0:j61", "hdrop 1000"], [["append", "a"]], [["remove_file", "a"], ["create_dir", "a"], ["create_dir", "a/b"]]),
        # a create_file that FAILS (no parent / parent is a file / target is a directory) must have no later effect,
        # whatever the other thread builds at that path in the meantime
        ([], [["create_file", "a/f"]], [["create_dir", "a"], ["create_file", "a/f"]]),
        (["createfile 0:j61", "hdrop 1000"], [["create_file", "a/f"]], [["remove_file", "a"], ["create_dir", "a"], ["create_file", "a/f"]]),
        (["createdir 0:j61", "createdir 0:j612f62"], [["create_file", "a/b"]], [["remove_dir", "a/b"], ["create_file", "a/b"]]),
        ([], [["append", "a/f"]], [["create_dir", "a"], ["create_file", "a/f"]]),
    ]
    # a writer whose single write is as large as std's copy buffer (8 KiB) and larger: writing is private to the handle
    # whatever its size, only flush / drop publish
    for j, n in enumerate((8191, 8192, 8193, 20000)):
        big = "hwrite 0 " + "61" * n
        progs.append(conclib.Prog("c16big%d" % j, CFG, ["createfile 0:j66", "hwrite 1000 6f6c64", "hdrop 1000"],
                                  [["createfile 0:j66", big, "hdrop 0"],
                                   ["openfile 0:j66", "hreadtoend 0", "hdrop 0", "createfile 0:j66", "hwrite 3 78", "hdrop 3"]],
                                  "explore 3000"))
    # open_file stamps the access time: with an explicitly set time before, a third thread can tell whether the stamp
    # of an open_file that later fails was visible (repaired by e051178: stamp and read under one lock)
    for j, third in enumerate(["metadata", "exists"]):
        setup = ["createfile 0:j66", "hdrop 1000", "setatime 0:j66 12345"]
        threads = [call_ops(rng, "open_read", "f", 0), call_ops(rng, "remove_file", "f", 0), call_ops(rng, third, "f", 0)]
        progs.append(conclib.Prog("c16o%d" % j, CFG, setup, threads, "explore 6000"))
    setup = ["createdir 0:j61", "setatime 0:j61 777"]
    progs.append(conclib.Prog("c16o2", CFG, setup, [call_ops(rng, "open_read", "a", 0), call_ops(rng, "metadata", "a", 0)],
                              "explore 6000"))
    # setters next to the calls that change or remove the same entry, all interleavings at the yield points
    fsetup = ["createfile 0:j66", "hwrite 1000 6f6c64", "hdrop 1000"]
    for j, other in enumerate(["create_file", "append", "remove_file", "set_mtime", "open_read"]):
        progs.append(conclib.Prog("c16t%d" % j, CFG, fsetup, [call_ops(rng, "set_mtime", "f", 0) + ["setatime 0:j66 77"],
                                                               call_ops(rng, other, "f", 0), call_ops(rng, "metadata", "f", 0)],
                                  "explore 6000"))
    for i, entry in enumerate(directed):
        setup, ts = entry[0], entry[1:]
        threads = []
        for t in ts:
            ops = []
            for (k, p) in t:
                ops += call_ops(rng, k, p, len(ops))
            threads.append(ops)
        progs.append(conclib.Prog("c16d%d" % i, CFG, setup, threads, "explore 6000"))
    # the frame proper: every ordered pair of calls on the same entry, on a directory and its child, on a child and its
    # directory - from a state in which all of them can succeed (/a a directory, /a/f a file, /a/b a directory)
    pair_kinds = KINDS
    pair_setup = ["createdir 0:j61", "createfile 0:j612f66", "hwrite 1001 6f6c64", "hdrop 1001", "createdir 0:j612f62"]
    relations = [("a/f", "a/f"), ("a", "a/f"), ("a/f", "a"), ("a/b", "a/b"), ("a", "a/b")]
    k = 0
    for (p0, p1) in relations:
        for k0 in pair_kinds:
            for k1 in pair_kinds:
                if k0 in ("exists", "metadata") and k1 in ("exists", "metadata"):
                    continue
                if tier == "quick" and (k + len(p0)) % 3:      # a third of the frame per quick run (rotating with the seed)
                    k += 1
                    continue
                k += 1
                threads = [call_ops(rng, k0, p0, 0), call_ops(rng, k1, p1, 0)]
                progs.append(conclib.Prog("c16p_%s_%s_%s_%s" % (k0, p0.replace("/", "-"), k1, p1.replace("/", "-")), CFG, pair_setup, threads, "explore 4000"))
    # free-running OS threads (no scheduler): what happens when a thread meets the lock HELD - the cooperative scheduler
    # never shows that, it switches threads only before acquisitions.  Every distinct outcome of the rounds is judged
    # against the sequential orders like an explored schedule
    rounds = 400 if tier == "quick" else 6000
    stress = [
        ([], [call_ops(rng, "create_file", "f", 0), call_ops(rng, "create_file", "a", 0),
              ["readdir 0:", "exists 0:j66", "readdir 0:"], ["metadata 0:j61", "readdir 0:", "exists 0:j61"]]),
        (["createfile 0:j66", "hwrite 1000 6f6c64", "hdrop 1000"],
         [call_ops(rng, "append", "f", 0), call_ops(rng, "open_read", "f", 0), ["metadata 0:j66", "readdir 0:", "metadata 0:j66"]]),
        (["createdir 0:j61"], [call_ops(rng, "create_file", "a/f", 0), ["createdir 0:j612f62", "readdir 0:j61"],
                               ["readdir 0:j61", "exists 0:j612f66", "metadata 0:j61"]]),
    ]
    # a time setter next to a rewrite, an append and a removal of the same file: the file is large (a setter that copied the
    # entry and stored the copy back would lose whatever happened in between; the larger the entry, the wider that window)
    bigsetup = ["createfile 0:j66", "hwrite 1000 " + "6f" * 400000, "hdrop 1000"]
    stress.append((bigsetup, [["setmtime 0:j66 4242", "setatime 0:j66 77", "setctime 0:j66 5"],
                              call_ops(rng, "create_file", "f", 0), ["metadata 0:j66"]]))
    stress.append((bigsetup, [["setatime 0:j66 77", "setmtime 0:j66 4242"], ["removefile 0:j66", "exists 0:j66"]]))
    stress.append((bigsetup, [["setmtime 0:j66 4242", "setmtime 0:j66 4243"], ["setatime 0:j66 77", "setatime 0:j66 78"], ["metadata 0:j66"]]))
    for j, (setup, threads) in enumerate(stress):
        progs.append(conclib.Prog("c16s%d" % j, CFG, setup, threads, "stress %d,seq" % rounds))
    n = 40 if tier == "quick" else 400
    for i in range(n):
        nthreads = 2 if (tier == "quick" or rng.random() < 0.7) else 3
        threads = []
        for t in range(nthreads):
            ops = []
            for _ in range(rng.randint(1, 2 if nthreads == 2 else 1)):
                ops += call_ops(rng, rng.choice(KINDS), rng.choice(PATHS), len(ops))
            threads.append(ops)
        progs.append(conclib.Prog("c16r%d" % i, CFG, rng.choice(SETUPS), threads, "explore %d" % (3000 if tier == "quick" else 20000)))
    return progs


RULE = ("all interleavings at lock-acquisition granularity (depth-first enumeration of the scheduling choices at the "
        "verif-hooks yield points, one before every RwLock acquisition of MemoryFS) of 18 directed programs around the "
        "check-then-act windows, of the pair frame (every ordered pair of the nine calls on the same "
        "entry, on a directory and its child, on a child and its directory; a third of the frame in the quick tier, all of "
        "it in the thorough tier) and of random programs of 2-3 threads x 1-2 calls drawn from create_dir, create_file+write, "
        "append, remove_file, remove_dir, exists, metadata, read_dir, open+read on the overlapping paths /a, /a/b, /a/f, /f; "
        "for every schedule: results and final snapshot must be among those of the sequential interleavings of the same calls "
        "run on the real MemoryFS (results compared as Ok values / error), no panic, no deadlock; every explored schedule "
        "(a sample of 400 per program) is replayed on the Coq interleaved semantics and compared including the section labels; "
        "plus time setters next to a rewrite, an append, a removal, another setter and a read of the same file (explored and free-running, the latter on a 400 kB file); "
        "plus 6 programs of 2-4 FREE-RUNNING OS threads (writers next to observers; 400 / 6000 rounds): threads that find the lock "
        "held, which the cooperative scheduler never produces - every distinct outcome judged against the sequential orders")
ASSUMPTIONS = ["interleavings finer than lock sections are irrelevant: all shared state of MemoryFS is behind the RwLock (no unsafe, no other shared state in memory.rs)",
               "OS scheduling and RwLock fairness are replaced by the cooperative scheduler",
               "results of failing calls are compared as 'error' (VfsPath::get_parent reads the parent twice, so the error kind of a failing create may differ from every sequential order)"]
BUILDS = [False]


def corpus():
    return []


def generate(rng, tier):
    return gen_progs(rng, tier)


def body_of(line):
    """results and final state without the sequence of lock acquisitions"""
    return line.split(" :: ", 1)[1] if " :: " in line else line


def run_and_compare(progs, tier):
    explored = conclib.explore(progs, "c16")
    model, nreplayed = conclib.replay_model(progs, explored, "c16")
    by = {p.name: p for p in progs}
    dis = []
    failing, broken = {}, {}
    nruns = 0
    exhaustive = 0
    distinct = set()
    for name, d in explored.items():
        p = by[name]
        if "exhaustive=true" in d["done"]:
            exhaustive += 1
        seqs = set(conclib.abstract(s) for s in d["seq"])
        for sch, rest in d["runs"]:
            nruns += 1
            bad = None
            if "DEADLOCK" in rest:
                bad = "deadlock (a thread neither reached its next lock acquisition nor finished)"
            elif "panic" in rest.split(" || ")[0]:
                bad = "panic under the schedule"
            elif conclib.abstract(rest) not in seqs:
                bad = "not linearizable: results/final state %s are not those of any sequential order" % conclib.abstract(rest)[:300]
            distinct.add(conclib.abstract(rest))
            if bad and name not in failing:
                failing[name] = {"case": name, "case_text": p.text(schedule=sch), "step": None, "op": "schedule " + sch,
                                 "model": model.get((name, sch)), "impl": rest, "violates": True, "note": bad}
            m = model.get((name, sch))
            if m is not None and m != rest and (name not in broken or not broken[name]["violates"]):
                # the tie to the model no longer checks for this program.  Results or final state that differ from the proved
                # model are a failing input; a different sequence of lock acquisitions alone is not - whether the property
                # fails is then decided by the oracle above over ALL explored schedules of the program
                differs = body_of(m) != body_of(rest)
                if differs or name not in broken:
                    broken[name] = {"case": name, "case_text": p.text(schedule=sch), "step": None, "op": "schedule " + sch,
                                    "model": m, "impl": rest, "violates": differs,
                                    "note": ("results or final state differ from the proved interleaved model under this schedule"
                                             if differs else
                                             "correspondence: the sequence of lock acquisitions differs from the model's under the "
                                             "same schedule; no schedule of this program that is not linearizable, deadlocks or "
                                             "panics was found")}
    for name in by:
        if name in failing:
            dis.append(failing[name])
        elif name in broken:
            dis.append(broken[name])
    dis.sort(key=lambda x: not x["violates"])
    stats = {"evaluations": nruns, "distinct_nontrivial": len(distinct),
             "samples": [{"program": progs[0].text(), "schedules_explored": len(explored.get(progs[0].name, {}).get("runs", []))}],
             "distribution": {"programs": len(progs), "programs_exhaustively_explored": exhaustive,
                              "schedules_replayed_on_model": nreplayed},
             "exhaustive": exhaustive == len(progs)}
    return {"disagreements": dis, "stats": stats}
