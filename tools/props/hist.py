"""Generator of operation histories over backend configurations (DESIGN.md 4.2).

All random choices come from the rng passed in.  The generator keeps an abstract tree of the
target's view only to bias generation towards valid calls; it is never used as an oracle."""
import random
import re
import vfx

NAMES = ["a", "ab", "a.b", "b", ".x", "x.", "A", "a b", "é", "日", "c"]
CONTENTS = [b"", b"x", b"hello", bytes([0, 159, 146, 150]), b"line1\nline2\n", "héllo".encode("utf-8")]
BIG = [8191, 8192, 8193, 70000]
TIMES = [0, 1_000_000_007_123_456_789, -1_000_000_000_000_000_000, 1, 4_102_444_800_000_000_000, 999_999_999]

CONFIGS = ["mem", "phys", "alt_mem", "alt_phys", "alt_alt", "alt_root", "ovl_mm", "ovl_m", "ovl_mmm", "ovl_pp",
           "ovl_mp", "ovl_sub", "alt_ovl", "ovl_alt", "ovl_ovl"]


class Cfg:
    def __init__(self):
        self.target = 0
        self.watch = []        # other instances worth snapshotting
        self.prepop = []       # (instance, subdir) where initial content may be created (lower layers)
        self.upper = None      # (instance, subdir) of the overlay's write layer, if any
        self.lowers = []       # [(instance, subdir)] of read-only layers
        self.alt_under = None  # (instance, P) for altroot configs
        self.kind = ""
        self.has_phys = False


def build_config(c, kind, rng):
    g = Cfg()
    g.kind = kind
    if kind == "mem":
        c.base("mem"); g.target = c.fs("base", 0)
    elif kind == "phys":
        c.base("phys"); g.target = c.fs("base", 0); g.has_phys = True
    elif kind in ("alt_mem", "alt_phys", "alt_root"):
        c.base("phys" if kind == "alt_phys" else "mem")
        u = c.fs("base", 0)
        P = "" if kind == "alt_root" else rng.choice(["/r", "/r/s", "/r/s/t", "/a"])
        g.target = c.fs("alt", u, vfx.hexs(P))
        g.alt_under = (u, P)
        g.watch = [u]
        g.has_phys = kind == "alt_phys"
        if P:
            c.op("createdirall", vfx.ps(u, P[1:]))
    elif kind == "alt_alt":
        c.base("mem")
        u = c.fs("base", 0)
        a1 = c.fs("alt", u, vfx.hexs("/r"))
        g.target = c.fs("alt", a1, vfx.hexs("/s"))
        g.alt_under = (u, "/r/s")
        g.watch = [u]
        c.op("createdirall", vfx.ps(u, "r/s"))
    elif kind in ("ovl_mm", "ovl_m", "ovl_mmm", "ovl_pp", "ovl_mp", "ovl_4", "ovl_pmpm"):
        kinds = {"ovl_mm": ["mem", "mem"], "ovl_m": ["mem"], "ovl_mmm": ["mem", "mem", "mem"],
                 "ovl_4": ["mem", "mem", "mem", "mem"], "ovl_pmpm": ["phys", "mem", "phys", "mem"],
                 "ovl_pp": ["phys", "phys"], "ovl_mp": ["mem", "phys"]}[kind]
        for b in kinds:
            c.base(b)
        insts = [c.fs("base", i) for i in range(len(kinds))]
        toks = []
        for i in insts:
            toks += [i, "-"]
        g.target = c.fs("ovl", len(insts), *toks)
        g.upper = (insts[0], "")
        g.lowers = [(i, "") for i in insts[1:]]
        g.prepop = list(g.lowers)
        g.watch = insts
        g.has_phys = "phys" in kinds
    elif kind in ("ovl_sub", "ovl_psub"):
        # both layers are sub-directories of ONE filesystem instance (ovl_psub: of one directory tree on disk)
        c.base("phys" if kind == "ovl_psub" else "mem")
        g.has_phys = kind == "ovl_psub"
        u = c.fs("base", 0)
        g.target = c.fs("ovl", 2, u, vfx.hexs("/up"), u, vfx.hexs("/lo"))
        c.op("createdir", vfx.ps(u, "up"))
        c.op("createdir", vfx.ps(u, "lo"))
        g.upper = (u, "/up")
        g.lowers = [(u, "/lo")]
        g.prepop = [(u, "/lo")]
        g.watch = [u]
    elif kind == "ovl_late":
        # the lower layer's directory exists when the overlay is constructed, the write layer's directory does not yet
        c.base("mem")
        u = c.fs("base", 0)
        c.op("createdir", vfx.ps(u, "lo"))
        g.target = c.fs("ovl", 2, u, vfx.hexs("/up"), u, vfx.hexs("/lo"))
        c.op("createdir", vfx.ps(u, "up"))
        g.upper = (u, "/up")
        g.lowers = [(u, "/lo")]
        g.prepop = [(u, "/lo")]
        g.watch = [u]
    elif kind == "alt_ovl":
        c.base("mem"); c.base("mem")
        a = c.fs("base", 0); b = c.fs("base", 1)
        o = c.fs("ovl", 2, a, "-", b, "-")
        g.target = c.fs("alt", o, vfx.hexs("/r"))
        c.op("createdirall", vfx.ps(b, "r"))
        g.upper = (a, "")
        g.lowers = [(b, "")]
        g.prepop = [(b, "/r")]
        g.watch = [a, b, o]
    elif kind == "ovl_alt":
        c.base("mem"); c.base("mem")
        a = c.fs("base", 0); b = c.fs("base", 1)
        c.op("createdirall", vfx.ps(a, "u"))
        c.op("createdirall", vfx.ps(b, "l"))
        ua = c.fs("alt", a, vfx.hexs("/u"))
        lb = c.fs("alt", b, vfx.hexs("/l"))
        g.target = c.fs("ovl", 2, ua, "-", lb, "-")
        g.upper = (a, "/u")
        g.lowers = [(b, "/l")]
        g.prepop = [(lb, "")]
        g.watch = [a, b]
    elif kind == "ovl_lo_ovl":
        # the LOWER layer is itself an overlay (a filesystem on which remove_file of a directory succeeds: finding D15)
        c.base("mem"); c.base("mem"); c.base("mem")
        a = c.fs("base", 0); b = c.fs("base", 1); d = c.fs("base", 2)
        inner = c.fs("ovl", 2, a, "-", b, "-")
        g.target = c.fs("ovl", 2, d, "-", inner, "-")
        g.upper = (d, "")
        g.lowers = [(inner, "")]
        g.prepop = [(inner, "")]
        g.watch = [a, b, d, inner]
    elif kind == "ovl_ovl":
        c.base("mem"); c.base("mem"); c.base("mem")
        a = c.fs("base", 0); b = c.fs("base", 1); d = c.fs("base", 2)
        inner = c.fs("ovl", 2, a, "-", b, "-")
        c.op("createdirall", vfx.ps(inner, "w"))
        g.target = c.fs("ovl", 2, inner, vfx.hexs("/w"), d, "-")
        g.upper = (a, "")
        g.lowers = [(d, "")]
        g.prepop = [(d, "")]
        g.watch = [a, b, d]
    else:
        raise ValueError(kind)
    c.has_phys = g.has_phys
    return g


class Tree:
    """generator-side belief about the target's view (bias only)"""
    def __init__(self):
        self.dirs = {()}
        self.files = {}

    def exists(self, p):
        return p in self.dirs or p in self.files

    def children(self, p):
        return [q for q in list(self.dirs) + list(self.files) if len(q) == len(p) + 1 and q[:len(p)] == p]

    def remove_subtree(self, p):
        self.dirs = {d for d in self.dirs if d[:len(p)] != p}
        self.files = {f: v for f, v in self.files.items() if f[:len(p)] != p}


def rel(p):
    return "/".join(p)


def pick_content(rng, big_ok=True):
    r = rng.random()
    if big_ok and r < 0.04:
        n = rng.choice(BIG)
        return bytes((i * 7 + 3) % 251 for i in range(n))
    return rng.choice(CONTENTS)


def write_file(c, inst, relpath, data):
    """create_file + write_all + drop"""
    i = c.op("createfile", vfx.ps(inst, relpath))
    c.op("hwrite", i, vfx.hexs(data))
    c.op("hdrop", i)
    return i


def session_script(c, rng, h, buf, pos, t, first=None, snaps=True, seeks=True, flushes=True):
    """a random script of write / seek / flush calls on write handle h; returns the bytes a growable
    cursor holds afterwards (generator-side belief only)"""
    buf = bytearray(buf)

    def put(d):
        nonlocal buf, pos
        if not d:
            return
        if pos > len(buf):
            buf.extend(b"\x00" * (pos - len(buf)))
        buf[pos:pos + len(d)] = d
        pos += len(d)
    if first is not None:
        c.op("hwrite", h, vfx.hexs(first))
        put(first)
    for _ in range(rng.choice([0, 0, 1, 2, 3, 5])):
        r = rng.random()
        if not seeks and 0.4 <= r < 0.75:
            r = 0.1
        if not flushes and r >= 0.75:
            r = 0.1
        if r < 0.4:
            d = rng.choice([b"ZZ", b"\x00", b"patch", b"\xff\xfe", b"0123456789"])
            c.op("hwrite", h, vfx.hexs(d))
            put(d)
        elif r < 0.75:
            wh = rng.choice(["s", "s", "c", "e"])
            if wh == "s":
                off = rng.randint(0, len(buf) + 3)
                pos = off
            elif wh == "c":
                off = rng.randint(-pos, 4)
                pos = pos + off
            else:
                off = rng.randint(-len(buf), 4)
                pos = len(buf) + off
            c.op("hseek", h, wh, off)
        else:
            c.op("hflush", h)
            if snaps and rng.random() < 0.5:
                c.op("snap", t)
    return bytes(buf)


def prepopulate(c, g, rng, names, tree, density=0.5):
    """random content in the lower layers (and sometimes the upper one), tracked in `tree`"""
    layers = list(reversed(g.prepop))  # lowest first so that upper shadows lower in `tree`
    if g.upper and rng.random() < 0.3:
        layers.append(g.upper)
    for (inst, sub) in layers:
        base = sub[1:] + "/" if sub else ""
        for n1 in names:
            if rng.random() > density:
                continue
            p1 = (n1,)
            if rng.random() < 0.5:
                if p1 in tree.files:
                    continue     # no cross-layer type conflicts in the initial state
                c.op("createdirall", vfx.ps(inst, base + rel(p1)))
                tree.dirs.add(p1)
                for n2 in names:
                    if rng.random() < 0.35:
                        p2 = (n1, n2)
                        if rng.random() < 0.4 and p2 not in tree.files:
                            c.op("createdirall", vfx.ps(inst, base + rel(p2)))
                            tree.dirs.add(p2)
                            if rng.random() < 0.4:
                                p3 = (n1, n2, rng.choice(names))
                                if p3 not in tree.dirs:
                                    data = pick_content(rng, False)
                                    write_file(c, inst, base + rel(p3), data)
                                    tree.files[p3] = data
                        elif p2 not in tree.dirs:
                            data = pick_content(rng, False)
                            write_file(c, inst, base + rel(p2), data)
                            tree.files[p2] = data
            else:
                if p1 in tree.dirs:
                    continue
                data = pick_content(rng, False)
                write_file(c, inst, base + rel(p1), data)
                tree.files[p1] = data


def rand_path(rng, names, maxdepth=3):
    d = rng.choice([1, 1, 2, 2, 3][:maxdepth + 2])
    return tuple(rng.choice(names) for _ in range(min(d, maxdepth)))


HOSTILE = [0.1]


def arg_of(rng, p, hostile=None):
    """a join argument denoting component path p (sometimes in a non-canonical spelling)"""
    s = rel(p)
    hostile = HOSTILE[0] if hostile is None else hostile
    if p and rng.random() < hostile:
        r = rng.random()
        if r < 0.25:
            s = "./" + s
        elif r < 0.5:
            s = "/" + s
        elif r < 0.75 and len(p) >= 1:
            s = rel(p[:-1] + ("zz", "..", p[-1]))
        else:
            s = s.replace("/", "//", 1) if "/" in s else "../" + s
    return s


def gen_history(c, g, rng, nops, typed=True, names=None, mix=None, snap_every=True, allow_big=True,
                with_times=False, prepop_density=0.5, after_prepop=None, hostile=0.1, reuse_tree=None,
                writer_seeks=True, writer_flushes=True):
    """append nops operations on the target to case c.  typed=True stays inside C01's domain."""
    names = names or rng.sample(NAMES, rng.randint(3, 4))
    HOSTILE[0] = hostile
    tree = reuse_tree or Tree()
    c.tree = tree
    t = g.target
    if reuse_tree is None and (g.prepop or g.upper):
        prepopulate(c, g, rng, names, tree, prepop_density)
    if after_prepop:
        after_prepop(c, g, tree)
    if snap_every:
        c.first_snap = c.op("snap", t)
    kinds = mix or (["createdir"] * 3 + ["createfile"] * 4 + ["append"] * 2 + ["removefile"] * 2 + ["removedir"] * 2
                    + ["createdirall"] * 2 + ["removedirall"] + ["copyfile"] + ["movefile"] + ["copydir"] + ["movedir"]
                    + ["readdir", "metadata", "exists", "readtostring", "walkdir", "probe", "isfile", "isdir"])
    if with_times:
        kinds = kinds + ["settime"] * 4
    for _ in range(nops):
        k = rng.choice(kinds)
        valid = rng.random() < (0.75 if typed else 0.4)
        dirs = sorted(tree.dirs)
        files = sorted(tree.files)

        def new_child():
            d = rng.choice(dirs)
            cands = [d + (n,) for n in names if not tree.exists(d + (n,))]
            return rng.choice(cands) if cands and len(d) < 3 else None

        p = None
        if k == "createdir":
            p = new_child() if valid else rand_path(rng, names)
            if p is None:
                continue
            c.op("createdir", vfx.ps(t, arg_of(rng, p)))
            if not tree.exists(p) and p[:-1] in tree.dirs:
                tree.dirs.add(p)
        elif k == "createdirall":
            p = rand_path(rng, names)
            if typed and any(p[:i] in tree.files for i in range(1, len(p) + 1)) and rng.random() < 0.7:
                continue
            c.op("createdirall", vfx.ps(t, arg_of(rng, p)))
            if not any(p[:i] in tree.files for i in range(1, len(p) + 1)):
                for i in range(1, len(p) + 1):
                    tree.dirs.add(p[:i])
        elif k == "createfile":
            if valid:
                p = new_child() if rng.random() < 0.6 or not files else rng.choice(files)
            else:
                p = rand_path(rng, names)
            if p is None or (typed and p in tree.dirs):
                continue
            data = pick_content(rng, allow_big)
            i = c.op("createfile", vfx.ps(t, arg_of(rng, p)))
            ok = p[:-1] in tree.dirs and p not in tree.dirs and p != ()
            if ok:
                data = session_script(c, rng, i, b"", 0, t, first=data, snaps=snap_every, seeks=writer_seeks, flushes=writer_flushes)
                c.op("hdrop", i)
                tree.files[p] = data
            else:
                # the call may still succeed in cases the belief tree gets wrong: close the handle if it exists
                c.op("hdrop", i)
        elif k == "append":
            if valid and files:
                p = rng.choice(files)
            else:
                p = rand_path(rng, names)
            if typed and p in tree.dirs:
                continue
            data = pick_content(rng, False)
            i = c.op("appendfile", vfx.ps(t, arg_of(rng, p)))
            if p in tree.files:
                if g.has_phys or not writer_seeks or rng.random() < 0.5:
                    c.op("hwrite", i, vfx.hexs(data))
                    tree.files[p] = tree.files[p] + data
                else:
                    # seeks on append handles: in-memory backends only (O_APPEND differs by design)
                    tree.files[p] = session_script(c, rng, i, tree.files[p], len(tree.files[p]), t, first=data, snaps=snap_every)
            c.op("hdrop", i)
        elif k == "removefile":
            p = rng.choice(files) if valid and files else rand_path(rng, names)
            if typed and p in tree.dirs:
                continue
            c.op("removefile", vfx.ps(t, arg_of(rng, p)))
            tree.files.pop(p, None)
        elif k == "removedir":
            empties = [d for d in dirs if d and not tree.children(d)]
            p = rng.choice(empties) if valid and empties else rand_path(rng, names)
            if p == () or (typed and p in tree.files):
                continue
            c.op("removedir", vfx.ps(t, arg_of(rng, p)))
            if p in tree.dirs and not tree.children(p):
                tree.dirs.discard(p)
        elif k == "removedirall":
            cands = [d for d in dirs if d]
            p = rng.choice(cands) if valid and cands else rand_path(rng, names)
            if p == () or (typed and p in tree.files):
                continue
            c.op("removedirall", vfx.ps(t, arg_of(rng, p)))
            if p in tree.dirs:
                tree.remove_subtree(p)
        elif k in ("copyfile", "movefile"):
            if not files:
                continue
            s = rng.choice(files) if (valid or typed) else rand_path(rng, names)
            d = new_child() if rng.random() < 0.7 else rand_path(rng, names)
            if d is None or (typed and s not in tree.files):
                continue
            c.op(k, vfx.ps(t, arg_of(rng, s)), vfx.ps(t, arg_of(rng, d)))
            if s in tree.files and not tree.exists(d) and d[:-1] in tree.dirs and d != ():
                tree.files[d] = tree.files[s]
                if k == "movefile":
                    tree.files.pop(s)
        elif k in ("copydir", "movedir"):
            cands = [d for d in dirs if d]
            if not cands:
                continue
            s = rng.choice(cands) if (valid or typed) else rand_path(rng, names)
            d = new_child() if rng.random() < 0.7 else rand_path(rng, names)
            if d is None or d[:len(s)] == s or s == () or (typed and s not in tree.dirs):
                continue   # never into the source's own subtree (documented non-termination)
            c.op(k, vfx.ps(t, arg_of(rng, s)), vfx.ps(t, arg_of(rng, d)))
            if s in tree.dirs and not tree.exists(d) and d[:-1] in tree.dirs:
                for q in [x for x in tree.dirs if x[:len(s)] == s]:
                    tree.dirs.add(d + q[len(s):])
                for q, v in [(x, v) for x, v in tree.files.items() if x[:len(s)] == s]:
                    tree.files[d + q[len(s):]] = v
                if k == "movedir":
                    tree.remove_subtree(s)
        elif k == "settime":
            cands = dirs + files
            p = rng.choice(cands) if valid else rand_path(rng, names)
            which = rng.choice(["setctime", "setmtime", "setatime"])
            c.op(which, vfx.ps(t, arg_of(rng, p)), rng.choice(TIMES))
            c.op("metadata", vfx.ps(t, rel(p)))
        else:
            cands = dirs + files
            p = rng.choice(cands) if valid and cands else rand_path(rng, names)
            op = {"readdir": "readdir", "metadata": "metadata", "exists": "exists", "readtostring": "readtostring",
                  "walkdir": "walkdir", "probe": "probe", "isfile": "isfile", "isdir": "isdir"}[k]
            c.op(op, vfx.ps(t, arg_of(rng, p)))
        if snap_every:
            c.op("snap", t)
    return names, tree


# ---------------------------------------------------------------------------------- projections

_TIMES = re.compile(r"(meta:(?:file|dir):\d+):[^;|:]+(?::-?\d+)?:[^;|:]+(?::-?\d+)?:[^;|:]+(?::-?\d+)?")


def strip_times(line):
    """drop the three timestamp fields of every metadata record"""
    return _TIMES.sub(r"\1", line)


def outcome_class(line):
    """ok / panic / err:<class> where only the classes the contracts name are kept apart"""
    if line is None:
        return None
    if line.startswith("ok"):
        return "ok"
    if line.startswith("panic"):
        return "panic"
    kind = line.split(":")[1]
    if kind in ("NotFound", "DirExists", "FileExists", "InvalidPath", "NotSupported", "MODEL-STUCK"):
        return "err:" + kind
    return "err:other"


def err_free(line):
    """outcome with error path and non-contract error classes abstracted"""
    if line is None:
        return None
    if line.startswith("ok"):
        return strip_times(line)
    return outcome_class(line)


# ---------------------------------------------------------------------------------- directed corpora

TARGET_KINDS = [("file", "g"), ("emptydir", "m"), ("dir", "d"), ("missing", "zz"), ("noparent", "nn/zz"),
                ("belowfile", "g/zz"), ("root", ""), ("deepfile", "d/f"), ("deepdir", "d/e"), ("farbelowfile", "d/f/sub/dir")]
ONE_PATH_OPS = ["exists", "metadata", "isfile", "isdir", "readdir", "createdir", "createdirall", "createfile", "appendfile",
                "openfile", "removefile", "removedir", "removedirall", "readtostring", "setmtime", "setctime", "setatime", "walkdir",
                "probe"]
TWO_PATH_OPS = ["copyfile", "movefile", "copydir", "movedir"]


def _matrix_setup(c, t):
    c.op("createdirall", vfx.ps(t, "d/e"))
    write_file(c, t, "d/f", b"deep file")
    write_file(c, t, "d/e/h", b"deeper")
    write_file(c, t, "g", b"top file")
    c.op("createdir", vfx.ps(t, "m"))
    c.op("snap", t)


def _ps(t, relpath):
    return vfx.ps(t, relpath) if relpath else "%d:" % t


def matrix_cases(prefix, kinds, rng=None, two_path=True, c01_domain=False, root_removal=False):
    """every operation of the path API on every kind of target (a file, an empty / a non-empty directory, a name
    missing from an existing directory, below a missing directory, below a file, the root, deeper entries): the
    calls of the wrong type for their target that random histories rarely produce"""
    rng = rng or random.Random(7)
    cases = []
    for kind in kinds:
        for opk in ONE_PATH_OPS:
            for tk, tp in TARGET_KINDS:
                if not root_removal and tk == "root" and opk in ("removedir", "removedirall"):
                    continue      # removing the root itself is outside every property but C13
                if c01_domain and opk in ("setmtime", "setctime", "setatime"):
                    continue      # timestamps are C19's subject, not part of the abstract tree
                if c01_domain and tk == "root" and opk in ("removedir", "removedirall", "removefile", "createfile", "appendfile"):
                    continue      # C01 leaves removing / overwriting the root unspecified
                c = vfx.Case("%s_mx_%s_%s_%s" % (prefix, kind, opk, tk))
                g = build_config(c, kind, rng)
                c.cfg = g
                t = g.target
                _matrix_setup(c, t)
                c.first_snap = c.nops - 1
                if opk in ("createfile", "appendfile"):
                    h = c.op(opk, _ps(t, tp)); c.op("hwrite", h, vfx.hexs(b"NEW")); c.op("hdrop", h)
                elif opk == "openfile":
                    h = c.op(opk, _ps(t, tp)); c.op("hreadtoend", h); c.op("hdrop", h)
                elif opk in ("setmtime", "setctime", "setatime"):
                    c.op(opk, _ps(t, tp), TIMES[1])
                    c.op("metadata", _ps(t, tp))
                else:
                    c.op(opk, _ps(t, tp))
                c.op("snap", t)
                for w in g.watch:
                    c.op("snap", w)
                cases.append(c)
        if not two_path:
            continue
        for opk in TWO_PATH_OPS:
            for sk, sp in TARGET_KINDS:
                for dk, dp in [("missing", "zz"), ("file", "g"), ("emptydir", "m"), ("belowfile", "g/zz"), ("noparent", "nn/zz"),
                               ("inside", "d/e/in"), ("root", "")]:
                    if opk in ("copydir", "movedir") and (sp == "" or dp.startswith(sp + "/")):
                        continue      # a directory copied into itself grows without bound (in the code as in cp -r)
                    if c01_domain:
                        # unspecified by C01: transfers whose source has the wrong type, into the source's own subtree
                        # (the source itself included), or that move the root
                        src_is_dir = sk in ("emptydir", "dir", "root", "deepdir")
                        src_is_file = sk in ("file", "deepfile")
                        if opk in ("copyfile", "movefile") and src_is_dir:
                            continue
                        if opk in ("copydir", "movedir") and src_is_file:
                            continue
                        if dp == sp or (sp and dp.startswith(sp + "/")) or sp == "":
                            continue
                    c = vfx.Case("%s_mx_%s_%s_%s_%s" % (prefix, kind, opk, sk, dk))
                    g = build_config(c, kind, rng)
                    c.cfg = g
                    t = g.target
                    _matrix_setup(c, t)
                    c.first_snap = c.nops - 1
                    c.op(opk, _ps(t, sp), _ps(t, dp))
                    c.op("snap", t)
                    for w in g.watch:
                        c.op("snap", w)
                    cases.append(c)
    return cases


def transfer_name_cases(prefix, kinds):
    """whole-directory transfers of entries whose names START WITH (or equal) the directory's own name: data/data.bin,
    log/log.0, a/a/f - bytes around the copy-buffer boundary, read back afterwards"""
    rng = random.Random(61)
    cases = []
    big = bytes((j * 11) % 256 for j in range(8193))
    for kind in kinds:
        c = vfx.Case("%s_xfernames_%s" % (prefix, kind))
        g = build_config(c, kind, rng)
        c.cfg = g
        t = g.target
        c.op("createdirall", vfx.ps(t, "data")); c.op("createdirall", vfx.ps(t, "log")); c.op("createdirall", vfx.ps(t, "a/a"))
        write_file(c, t, "data/data.bin", big)
        write_file(c, t, "data/datadata", b"dd")
        write_file(c, t, "log/log.0", bytes([0, 159, 146, 150]))
        write_file(c, t, "a/a/f.txt", b"nested")
        c.op("snap", t)
        c.first_snap = c.nops - 1
        c.op("copydir", vfx.ps(t, "data"), vfx.ps(t, "d2")); c.op("snap", t)
        c.op("readtostring", vfx.ps(t, "d2/data.bin")); c.op("metadata", vfx.ps(t, "d2/data.bin"))
        c.op("movedir", vfx.ps(t, "log"), vfx.ps(t, "l2")); c.op("snap", t)
        c.op("copydir", vfx.ps(t, "a"), vfx.ps(t, "a2")); c.op("movedir", vfx.ps(t, "a"), vfx.ps(t, "a3")); c.op("snap", t)
        for w in g.watch:
            c.op("snap", w)
        cases.append(c)
    return cases


def odd_join_cases(prefix, kinds):
    """join arguments spelled oddly (doubled leading slashes, './', inner '//', '..' that climbs to the root and back)
    through an altroot whose underlying filesystem holds a file of the same name OUTSIDE the altroot's directory: every
    call must resolve inside"""
    rng = random.Random(59)
    cases = []
    args = ["//secret.txt", "///secret.txt", "/./secret.txt", "//./secret.txt", "..//secret.txt", "../../secret.txt",
            "//d//f", "//d/../secret.txt", "/d/..//secret.txt",
            # a backslash is an ordinary character of a name, not a separator: each of these is ONE absent component
            "..\\secret.txt", "d\\f", "d\\..\\..\\secret.txt", "\\secret.txt", "d\\e\\h"]
    for kind in kinds:
        c = vfx.Case("%s_oddjoin_%s" % (prefix, kind))
        g = build_config(c, kind, rng)
        c.cfg = g
        t = g.target
        _matrix_setup(c, t)
        if g.alt_under:
            u, _P = g.alt_under
            write_file(c, u, "secret.txt", b"outside the altroot")
        c.op("snap", t)
        c.first_snap = c.nops - 1
        for a in args:
            sp = "%d:j%s" % (t, vfx.hexs(a))
            c.op("asstr", sp); c.op("exists", sp); c.op("readtostring", sp); c.op("metadata", sp)
        for a in ("//secret.txt", "//d//new", "d\\note.txt", "..\\up.txt"):
            sp = "%d:j%s" % (t, vfx.hexs(a))
            h = c.op("createfile", sp); c.op("hwrite", h, vfx.hexs(b"inside")); c.op("hdrop", h)
            c.op("removefile", sp)
        c.op("createdir", "%d:j%s" % (t, vfx.hexs("//nd")))
        c.op("snap", t)
        for w in g.watch:
            c.op("snap", w)
        cases.append(c)
    return cases


def type_conflict_cases(prefix):
    """layers whose contents CONFLICT in type: a file /x in an upper layer over a directory /x with children in a layer
    below it.  The overlay then shows /x as a file and still resolves /x/c below it (finding D31)"""
    rng = random.Random(53)
    cases = []
    for kind, hi, lo in (("ovl_mm", "upper", 0), ("ovl_mmm", 0, 1), ("ovl_pp", "upper", 0)):
        c = vfx.Case("%s_typeconflict_%s" % (prefix, kind))
        g = build_config(c, kind, rng)
        c.cfg = g
        t = g.target
        fi, fsub = g.upper if hi == "upper" else g.prepop[hi]
        di, dsub = g.prepop[lo]
        write_file(c, fi, (fsub[1:] + "/" if fsub else "") + "x", b"a file")
        c.op("createdirall", vfx.ps(di, (dsub[1:] + "/" if dsub else "") + "x"))
        write_file(c, di, (dsub[1:] + "/" if dsub else "") + "x/c", b"below")
        c.op("snap", t)
        c.first_snap = c.nops - 1
        c.op("metadata", vfx.ps(t, "x")); c.op("exists", vfx.ps(t, "x/c")); c.op("readtostring", vfx.ps(t, "x/c"))
        c.op("readdir", "%d:" % t); c.op("walkdir", "%d:" % t)
        cases.append(c)
    return cases


def lower_only_cases(prefix, kinds, stamp=False):
    """every one-path operation on entries that ONLY a lower layer holds (a non-empty directory, a file in it, an empty
    directory): whatever the call answers, no mutating call may reach a lower layer"""
    rng = random.Random(47)
    cases = []
    for kind in kinds:
        for opk in ONE_PATH_OPS:
            for tk, tp in (("dir", "d"), ("file", "d/f"), ("emptydir", "m"), ("deepdir", "d/e")):
                c = vfx.Case("%s_lowonly_%s_%s_%s" % (prefix, kind, opk, tk))
                g = build_config(c, kind, rng)
                c.cfg = g
                t = g.target
                lo, sub = g.prepop[-1]
                base = sub[1:] + "/" if sub else ""
                c.op("createdirall", vfx.ps(lo, base + "d/e"))
                write_file(c, lo, base + "d/f", b"lower file")
                write_file(c, lo, base + "d/e/h", b"deeper")
                c.op("createdirall", vfx.ps(lo, base + "m"))
                if stamp:      # explicit timestamps on the lower entries: re-timing by "now" becomes visible
                    for q in ("d", "d/e", "d/f", "d/e/h", "m"):
                        for k, v in (("setatime", TIMES[1]), ("setmtime", TIMES[4]), ("setctime", TIMES[5])):
                            c.op(k, vfx.ps(lo, base + q), v)
                c.op("clearlog")
                c.op("snap", t)
                c.first_snap = c.nops - 1
                if opk in ("createfile", "appendfile"):
                    h = c.op(opk, _ps(t, tp)); c.op("hwrite", h, vfx.hexs(b"NEW")); c.op("hdrop", h)
                elif opk == "openfile":
                    h = c.op(opk, _ps(t, tp)); c.op("hreadtoend", h); c.op("hdrop", h)
                elif opk in ("setmtime", "setctime", "setatime"):
                    c.op(opk, _ps(t, tp), TIMES[1])
                else:
                    c.op(opk, _ps(t, tp))
                c.op("snap", t)
                for w in g.watch:
                    c.op("snap", w)
                cases.append(c)
    return cases


def marker_collision_cases(prefix, kinds=("ovl_mm", "ovl_sub", "ovl_pp")):
    """names that end in the overlay's marker suffix: the marker FILE of /a and the marker DIRECTORY of the children
    of /a_wo are the same path of the write layer (finding D28)"""
    rng = random.Random(5)
    cases = []
    for kind in kinds:
        for variant in ("hides", "createdir", "listing", "otherway"):
            c = vfx.Case("%s_wocollide_%s_%s" % (prefix, kind, variant))
            g = build_config(c, kind, rng)
            c.cfg = g
            t = g.target
            lo, sub = g.prepop[0]
            base = sub[1:] + "/" if sub else ""
            if variant == "otherway":
                write_file(c, lo, base + "a", b"a file")
            elif variant != "createdir":
                c.op("createdir", vfx.ps(lo, base + "a"))
            c.op("createdirall", vfx.ps(lo, base + "a_wo"))
            write_file(c, lo, base + "a_wo/x", b"x")
            write_file(c, lo, base + "a_wo/y", b"y")
            c.op("snap", t)
            c.first_snap = c.nops - 1
            if variant == "otherway":
                # the marker FILE of /a stands where the marker DIRECTORY of /a_wo/* has to be
                c.op("removefile", vfx.ps(t, "a"))
                c.op("readdir", vfx.ps(t, "a_wo"))
            c.op("removefile", vfx.ps(t, "a_wo/x"))
            if variant == "otherway":
                c.op("exists", vfx.ps(t, "a_wo/x"))
            elif variant == "hides":
                c.op("exists", vfx.ps(t, "a"))
                c.op("metadata", vfx.ps(t, "a"))
            elif variant == "createdir":
                c.op("createdir", vfx.ps(t, "a"))
            else:
                c.op("readdir", "%d:" % t)
            c.op("snap", t)
            for w in g.watch:
                c.op("snap", w)
            cases.append(c)
    return cases


def deleted_target_cases(prefix, kinds=("ovl_mm", "ovl_sub", "ovl_mmm", "alt_ovl")):
    """every operation on an entry that a lower layer holds and that was REMOVED through the overlay (a file, a
    directory emptied and removed, a whole subtree): the deletion has to hold against every call, not only against
    the observers"""
    rng = random.Random(23)
    cases = []
    ops1 = ["exists", "metadata", "isfile", "isdir", "readdir", "openfile", "appendfile", "createfile", "createdir", "removefile",
            "removedir", "removedirall", "readtostring", "walkdir", "setmtime"]
    for kind, layer in [(k, 0) for k in kinds] + [("ovl_mmm", -1)]:
        for victim in ("file", "nested_file", "subtree"):
            for opk in ops1 + ["copyfile_from", "movefile_from", "copyfile_onto", "copydir_from"]:
                c = vfx.Case("%s_deleted_%s%s_%s_%s" % (prefix, kind, "_bottom" if layer else "", victim, opk))
                g = build_config(c, kind, rng)
                c.cfg = g
                t = g.target
                lo, sub = g.prepop[layer]         # the first lower layer, or the bottom one of three
                base = sub[1:] + "/" if sub else ""
                c.op("createdirall", vfx.ps(lo, base + "d/e"))
                write_file(c, lo, base + "f", b"lower f")
                write_file(c, lo, base + "d/g", b"lower g")
                write_file(c, lo, base + "d/e/h", b"lower h")
                write_file(c, lo, base + "keep", b"kept")
                c.op("snap", t)
                c.first_snap = c.nops - 1
                if victim == "file":
                    c.op("removefile", vfx.ps(t, "f")); tp = "f"
                elif victim == "nested_file":
                    c.op("removefile", vfx.ps(t, "d/g")); tp = "d/g"
                else:
                    c.op("removedirall", vfx.ps(t, "d")); tp = "d/e/h" if opk in ("appendfile", "openfile", "readtostring", "copyfile_from", "movefile_from") else "d"
                c.op("snap", t)
                if opk in ("createfile", "appendfile"):
                    h = c.op(opk, vfx.ps(t, tp)); c.op("hwrite", h, vfx.hexs(b"NEW")); c.op("hdrop", h)
                elif opk == "openfile":
                    h = c.op(opk, vfx.ps(t, tp)); c.op("hreadtoend", h); c.op("hdrop", h)
                elif opk == "setmtime":
                    c.op(opk, vfx.ps(t, tp), TIMES[1])
                elif opk == "copyfile_from":
                    c.op("copyfile", vfx.ps(t, tp), vfx.ps(t, "zz"))
                elif opk == "movefile_from":
                    c.op("movefile", vfx.ps(t, tp), vfx.ps(t, "zz"))
                elif opk == "copyfile_onto":
                    c.op("copyfile", vfx.ps(t, "keep"), vfx.ps(t, tp))
                elif opk == "copydir_from":
                    c.op("copydir", vfx.ps(t, "d"), vfx.ps(t, "zz"))
                else:
                    c.op(opk, vfx.ps(t, tp))
                c.op("snap", t)
                c.op("probe", vfx.ps(t, tp))
                for w in g.watch:
                    c.op("snap", w)
                cases.append(c)
    return cases


def open_handle_cases(prefix, kinds):
    """what the world looks like WHILE a write handle is open: a second create_file on an existing file (truncation is
    visible at once), an append handle opened in that window, observers before anything is published"""
    rng = random.Random(29)
    cases = []
    for kind in kinds:
        variants = ["recreate_observe", "recreate_then_append", "append_observe", "two_creates"]
        if kind.startswith("ovl") or kind == "alt_ovl":
            variants += ["append_lower_observe", "append_lower_two_sessions"]
        for variant in variants:
            c = vfx.Case("%s_openh_%s_%s" % (prefix, kind, variant))
            g = build_config(c, kind, rng)
            c.cfg = g
            t = g.target
            if variant.startswith("append_lower") and not g.prepop:
                continue
            if variant.startswith("append_lower"):
                # the file exists in the lower layer only: the overlay has to copy it up when it is opened for appending,
                # and the copy must be in place - not only in the handle - from that moment on
                lo, sub = g.prepop[0]
                base = sub[1:] + "/" if sub else ""
                write_file(c, lo, base + "f", b"lower content")
                c.op("snap", t)
                c.first_snap = c.nops - 1
                h = c.op("appendfile", vfx.ps(t, "f"))
                c.op("metadata", vfx.ps(t, "f")); c.op("readtostring", vfx.ps(t, "f")); c.op("snap", t)
                if variant == "append_lower_two_sessions":
                    h2 = c.op("appendfile", vfx.ps(t, "f")); c.op("hwrite", h2, vfx.hexs(b" second")); c.op("hdrop", h2); c.op("snap", t)
                c.op("hwrite", h, vfx.hexs(b" first"))
                c.op("hdrop", h)
                c.op("snap", t)
                c.op("readtostring", vfx.ps(t, "f"))
                cases.append(c)
                continue
            write_file(c, t, "f", b"first content")
            c.op("snap", t)
            c.first_snap = c.nops - 1
            if variant == "append_observe":
                h = c.op("appendfile", vfx.ps(t, "f"))
            else:
                h = c.op("createfile", vfx.ps(t, "f"))
            c.op("metadata", vfx.ps(t, "f")); c.op("readtostring", vfx.ps(t, "f")); c.op("snap", t)
            if variant == "recreate_then_append":
                h2 = c.op("appendfile", vfx.ps(t, "f")); c.op("hwrite", h2, vfx.hexs(b"tail")); c.op("hdrop", h2); c.op("snap", t)
            if variant == "two_creates":
                h2 = c.op("createfile", vfx.ps(t, "f")); c.op("hwrite", h2, vfx.hexs(b"second")); c.op("hdrop", h2); c.op("snap", t)
            c.op("hwrite", h, vfx.hexs(b"new"))
            c.op("metadata", vfx.ps(t, "f"))
            c.op("hdrop", h)
            c.op("snap", t)
            c.op("readtostring", vfx.ps(t, "f"))
            cases.append(c)
    return cases


def dotted_name_cases(prefix, kinds):
    """names with dots in every position - 'a..b', '..x', 'x..', '...', 'a.', '.a' - as entries (not as path
    syntax): every call on them through the adapter, and on the directory that holds them"""
    rng = random.Random(31)
    cases = []
    names = ["a..b", "..x", "x..", "...", "a.", ".a", "a...b", "d..d"]
    for kind in kinds:
        c = vfx.Case("%s_dotted_%s" % (prefix, kind))
        g = build_config(c, kind, rng)
        c.cfg = g
        t = g.target
        for n in names:
            write_file(c, t, n, n.encode())
        c.op("createdir", vfx.ps(t, "d..d"))
        write_file(c, t, "d..d/in..ner", b"inner")
        c.op("snap", t)
        c.first_snap = c.nops - 1
        for n in names + ["d..d/in..ner"]:
            c.op("exists", vfx.ps(t, n)); c.op("metadata", vfx.ps(t, n)); c.op("readtostring", vfx.ps(t, n))
        c.op("readdir", "%d:" % t); c.op("readdir", vfx.ps(t, "d..d")); c.op("walkdir", "%d:" % t)
        h = c.op("appendfile", vfx.ps(t, "a..b")); c.op("hwrite", h, vfx.hexs(b"+")); c.op("hdrop", h)
        c.op("copyfile", vfx.ps(t, "..x"), vfx.ps(t, "y..y"))
        c.op("removefile", vfx.ps(t, "x.."))
        c.op("removedirall", vfx.ps(t, "d..d"))
        c.op("snap", t)
        for w in g.watch:
            c.op("snap", w)
        cases.append(c)
    return cases


def neighbour_name_cases(prefix, kinds):
    """a non-empty directory whose SIBLINGS' names extend its own by a character that sorts before, at or after the
    separator ('docs.txt', 'docs-old', 'docs (copy)', 'docs+', 'docs0', 'docs~', the prefix 'doc'): emptiness tests,
    listings, walks and whole-tree operations on 'docs' must see its children and only them"""
    rng = random.Random(43)
    cases = []
    sib_files = ["docs.txt", "docs-old", "docs (copy)", "docs+", "docs0", "docs~", "doc", "docs!"]
    for kind in kinds:
        for order in (0, 1):
            c = vfx.Case("%s_neighbours_%s_%d" % (prefix, kind, order))
            g = build_config(c, kind, rng)
            c.cfg = g
            t = g.target
            c.op("createdir", vfx.ps(t, "docs"))
            write_file(c, t, "docs/readme", b"readme")
            c.op("createdirall", vfx.ps(t, "docs/deep/er"))
            write_file(c, t, "docs/deep/er/f", b"f")
            for n in (sib_files if order == 0 else reversed(sib_files)):
                write_file(c, t, n, n.encode())
            c.op("createdir", vfx.ps(t, "docs.d"))
            write_file(c, t, "docs.d/inner", b"inner")
            c.op("createdir", vfx.ps(t, "docs-empty"))
            c.op("snap", t)
            c.first_snap = c.nops - 1
            c.op("removedir", vfx.ps(t, "docs")); c.op("snap", t)                 # not empty: refused
            c.op("removedir", vfx.ps(t, "docs.d")); c.op("removedir", vfx.ps(t, "docs/deep")); c.op("snap", t)
            c.op("readdir", vfx.ps(t, "docs")); c.op("readdir", "%d:" % t); c.op("walkdir", vfx.ps(t, "docs")); c.op("walkdir", "%d:" % t)
            c.op("removedir", vfx.ps(t, "docs-empty")); c.op("snap", t)
            if order == 0:
                c.op("copydir", vfx.ps(t, "docs"), vfx.ps(t, "docs2")); c.op("snap", t)
                c.op("movedir", vfx.ps(t, "docs"), vfx.ps(t, "docs3")); c.op("snap", t)
                c.op("removedirall", vfx.ps(t, "docs3")); c.op("snap", t)
            else:
                c.op("removedirall", vfx.ps(t, "docs")); c.op("snap", t)
                for n in sib_files:
                    c.op("exists", vfx.ps(t, n))
                c.op("removefile", vfx.ps(t, "docs.d/inner")); c.op("removedir", vfx.ps(t, "docs.d")); c.op("snap", t)
            for w in g.watch:
                c.op("snap", w)
            cases.append(c)
    return cases


def wo_names_cases(prefix, kinds=("ovl_mm", "ovl_sub", "ovl_mmm", "alt_ovl")):
    """entry names that merely END in the overlay's marker suffix (x_wo next to x; y_wo_wo) - ordinary files, none of
    them a directory with entries (that is finding D28): removing one must not touch its neighbours in any listing"""
    rng = random.Random(37)
    cases = []
    for kind in kinds:
        for where in ("root", "sub"):
            c = vfx.Case("%s_wonames_%s_%s" % (prefix, kind, where))
            g = build_config(c, kind, rng)
            c.cfg = g
            t = g.target
            lo, sub = g.prepop[0]
            base = sub[1:] + "/" if sub else ""
            d = "" if where == "root" else "d/"
            if d:
                c.op("createdirall", vfx.ps(lo, base + "d"))
            for n in ("x", "x_wo", "y_wo", "y_wo_wo", "z", "net", "net_work.txt", "a_wo_b", "a"):
                write_file(c, lo, base + d + n, n.encode())
            # a directory whose NAME contains the suffix in the middle: its bookkeeping directory under .whiteout
            # has the same name and must not be read as a marker of its sibling "two"
            c.op("createdirall", vfx.ps(lo, base + d + "two_words"))
            write_file(c, lo, base + d + "two_words/k", b"k")
            write_file(c, lo, base + d + "two", b"two")
            c.op("snap", t)
            c.first_snap = c.nops - 1
            listing = "%d:" % t if not d else vfx.ps(t, "d")
            for victim in ("x_wo", "y_wo_wo", "net_work.txt", "a_wo_b", "two_words/k"):
                c.op("removefile", vfx.ps(t, d + victim))
                c.op("readdir", listing); c.op("exists", vfx.ps(t, d + "x")); c.op("exists", vfx.ps(t, d + "y_wo"))
                c.op("exists", vfx.ps(t, d + victim)); c.op("exists", vfx.ps(t, d + "net")); c.op("exists", vfx.ps(t, d + "two"))
                c.op("walkdir", "%d:" % t); c.op("snap", t)
            c.op("removedir", vfx.ps(t, d + "two_words"))
            c.op("readdir", listing); c.op("snap", t)
            write_file(c, t, d + "x_wo", b"again")
            c.op("readdir", listing); c.op("snap", t)
            c.op("removefile", vfx.ps(t, d + "x"))
            c.op("readdir", listing); c.op("exists", vfx.ps(t, d + "x_wo")); c.op("snap", t)
            for w in g.watch:
                c.op("snap", w)
            cases.append(c)
    return cases


def size_cases(prefix, kinds):
    """sizes and shapes that small universes never reach: a directory with 40 entries whose names sort around each
    other (f9 < f10?, names that are prefixes of names, upper/lower case), nesting 12 deep, a long name - listed, walked,
    copied, moved and removed as a whole"""
    rng = random.Random(41)
    cases = []
    wide = ["f%d" % i for i in range(12)] + ["f%02d" % i for i in range(12)] + ["F1", "f", "f1x", "f1.x", "g-", "g_", "g.", "g",
                                                                                  "gg", "é1", "é", "日", "z" * 60, "~", "!", "0"]
    for kind in kinds:
        for shape in ("wide", "deep"):
            c = vfx.Case("%s_size_%s_%s" % (prefix, kind, shape))
            g = build_config(c, kind, rng)
            c.cfg = g
            t = g.target
            if shape == "wide":
                c.op("createdir", vfx.ps(t, "w"))
                for i, n in enumerate(wide):
                    if i % 5 == 4:
                        c.op("createdir", vfx.ps(t, "w/" + n))
                        write_file(c, t, "w/" + n + "/in", n.encode())
                    else:
                        write_file(c, t, "w/" + n, n.encode())
                root = "w"
            else:
                deep = "/".join("d%d" % i for i in range(12))
                c.op("createdirall", vfx.ps(t, "w/" + deep))
                write_file(c, t, "w/" + deep + "/leaf", b"leaf")
                write_file(c, t, "w/d0/d1/mid", b"mid")
                root = "w"
            c.op("snap", t)
            c.first_snap = c.nops - 1
            c.op("readdir", vfx.ps(t, root)); c.op("walkdir", vfx.ps(t, root)); c.op("walkdir", "%d:" % t)
            c.op("copydir", vfx.ps(t, root), vfx.ps(t, "w2")); c.op("snap", t)
            c.op("movedir", vfx.ps(t, "w2"), vfx.ps(t, "w3")); c.op("snap", t)
            c.op("removedirall", vfx.ps(t, root)); c.op("snap", t)
            c.op("walkdir", "%d:" % t); c.op("readdir", vfx.ps(t, "w3"))
            for w in g.watch:
                c.op("snap", w)
            cases.append(c)
    return cases


def reader_seek_cases(prefix, kinds, rng=None):
    """read handles driven to and over the edges: relative seeks before the start, to and past the end, reads there"""
    rng = rng or random.Random(13)
    cases = []
    scripts = [
        [("s", 4), ("c", -5), ("read", 99)], [("s", 7), ("e", -11), ("read", 99)], [("e", 0), ("read", 4), ("c", -3), ("read", 9)],
        [("s", 10), ("read", 1), ("s", 11), ("read", 1), ("c", -11), ("c", -12), ("read", 3)],
        [("e", 5), ("read", 2), ("e", -10), ("read", 2), ("c", 0)], [("read", 3), ("c", -4), ("c", -3), ("read", 99)],
    ]
    for kind in kinds:
        for i, sc in enumerate(scripts):
            c = vfx.Case("%s_rseek_%s_%d" % (prefix, kind, i))
            g = build_config(c, kind, rng)
            c.cfg = g
            t = g.target
            write_file(c, t, "f", b"0123456789")
            c.op("snap", t)
            c.first_snap = c.nops - 1
            h = c.op("openfile", vfx.ps(t, "f"))
            for (k, v) in sc:
                if k == "read":
                    c.op("hreadn", h, v)
                else:
                    c.op("hseek", h, k, v)
            c.op("hreadtoend", h)
            # the drained handle sits at its end: the next read is empty, a second drain too, relative seeks start there
            c.op("hreadn", h, 3); c.op("hseek", h, "c", 0); c.op("hreadtoend", h)
            c.op("hseek", h, "c", -4); c.op("hreadtoend", h); c.op("hseek", h, "e", 0)
            c.op("hdrop", h)
            c.op("snap", t)
            cases.append(c)
    return cases


def stale_handle_cases(prefix, kinds, rng=None):
    """write and read handles that outlive what they were opened on: the path is removed, re-created as a file or as a
    directory (with children), its parent is removed - and only then the handle is written, flushed, dropped or read"""
    rng = rng or random.Random(11)
    cases = []
    for kind in kinds:
        for opener in ("createfile", "appendfile", "openfile"):
            for between in ("remove", "remove_recreate_file", "remove_recreate_dir", "remove_parent", "overwrite"):
                for finish in ("drop", "flush_drop"):
                    if opener == "openfile" and finish == "flush_drop":
                        continue
                    c = vfx.Case("%s_stale_%s_%s_%s_%s" % (prefix, kind, opener, between, finish))
                    g = build_config(c, kind, rng)
                    c.cfg = g
                    t = g.target
                    c.op("createdir", vfx.ps(t, "a"))
                    write_file(c, t, "a/x", b"original")
                    c.op("snap", t)
                    c.first_snap = c.nops - 1
                    h = c.op(opener, vfx.ps(t, "a/x"))
                    if opener != "openfile":
                        c.op("hwrite", h, vfx.hexs(b"early"))
                    if between == "remove":
                        c.op("removefile", vfx.ps(t, "a/x"))
                    elif between == "remove_recreate_file":
                        c.op("removefile", vfx.ps(t, "a/x")); write_file(c, t, "a/x", b"second life")
                    elif between == "remove_recreate_dir":
                        c.op("removefile", vfx.ps(t, "a/x")); c.op("createdir", vfx.ps(t, "a/x"))
                        write_file(c, t, "a/x/c", b"child")
                    elif between == "remove_parent":
                        c.op("removedirall", vfx.ps(t, "a"))
                    else:
                        write_file(c, t, "a/x", b"overwritten by another handle")
                    c.op("snap", t)
                    if opener == "openfile":
                        c.op("hread", h, 4); c.op("hreadtoend", h)
                    else:
                        c.op("hwrite", h, vfx.hexs(b" late"))
                        if finish == "flush_drop":
                            c.op("hflush", h); c.op("snap", t)
                    c.op("hdrop", h)
                    c.op("snap", t)
                    c.op("probe", vfx.ps(t, "a/x")); c.op("probe", vfx.ps(t, "a/x/c")); c.op("probe", vfx.ps(t, "a"))
                    for w in g.watch:
                        c.op("snap", w)
                    cases.append(c)
    return cases


def deep_tree_cases(prefix, kinds, depth=70, cross=True):
    """trees far deeper than any random history builds (a chain of `depth` directories with files at the depths around
    every power of two and every round number a traversal limit could sit at): walked, copied, moved, removed"""
    rng = random.Random(53)
    cases = []
    marks = sorted(set([1, 7, 8, 9, 15, 16, 17, 31, 32, 33, 39, 40, 41, 42, 49, 50, 51, 63, 64, 65, 66, depth - 1, depth]))
    for kind in kinds:
        c = vfx.Case("%s_deep_%s" % (prefix, kind))
        g = build_config(c, kind, rng)
        c.cfg = g
        t = g.target
        chain = ["t"] + ["d"] * depth
        c.op("createdirall", vfx.ps(t, "/".join(chain)))
        for k in marks:
            if k <= depth:
                write_file(c, t, "/".join(chain[:k + 1] + ["f%d" % k]), b"at depth %d" % k)
        c.op("snap", t)
        c.first_snap = c.nops - 1
        c.op("walkdir", vfx.ps(t, "t"))
        c.op("walkdir", "%d:" % t)
        c.op("copydir", vfx.ps(t, "t"), vfx.ps(t, "u"))
        c.op("snap", t)
        c.op("movedir", vfx.ps(t, "u"), vfx.ps(t, "v"))
        c.op("snap", t)
        c.op("exists", vfx.ps(t, "/".join(["v"] + ["d"] * depth + ["f%d" % depth])))
        c.op("readtostring", vfx.ps(t, "/".join(["v"] + ["d"] * depth + ["f%d" % depth])))
        c.op("removedirall", vfx.ps(t, "t"))
        c.op("snap", t)
        for w in g.watch:
            c.op("snap", w)
        cases.append(c)
    return cases


def long_path_cases(prefix, kinds, ascii_only=False):
    """paths of several hundred bytes (30 levels of 10-byte names; multi-byte names so that every byte offset falls
    inside a character for some alignment): every call fails or succeeds on them exactly as on short ones"""
    rng = random.Random(59)
    cases = []
    alphabets = [("asc", "abcdefghij")] if ascii_only else [("asc", "abcdefghij"), ("jp", "日本語"), ("mix1", "x日本語"), ("mix2", "xy日本語é")]
    for kind in kinds:
        for an, name in alphabets:
            c = vfx.Case("%s_long_%s_%s" % (prefix, kind, an))
            g = build_config(c, kind, rng)
            c.cfg = g
            t = g.target
            chain = [name] * 30
            deep = "/".join(chain)
            c.op("createdirall", vfx.ps(t, deep))
            write_file(c, t, deep + "/file", b"far down")
            c.op("snap", t)
            c.first_snap = c.nops - 1
            for opk in ONE_PATH_OPS:
                for tp in (deep + "/missing", deep + "/file/below", deep + "/file", deep, deep + "/missing/again"):
                    if opk in ("removedirall", "removedir", "removefile") and tp in (deep, deep + "/file"):
                        continue
                    if opk in ("createfile", "appendfile"):
                        h = c.op(opk, _ps(t, tp)); c.op("hdrop", h)
                    elif opk == "openfile":
                        h = c.op(opk, _ps(t, tp)); c.op("hdrop", h)
                    elif opk in ("setmtime", "setctime", "setatime"):
                        c.op(opk, _ps(t, tp), TIMES[1])
                    else:
                        c.op(opk, _ps(t, tp))
            for opk in TWO_PATH_OPS:
                for sp, dp in ((deep + "/missing", deep + "/dst"), (deep + "/file", deep + "/file"), (deep + "/file", deep + "/no/dst"),
                               (deep, deep + "/file"), (deep + "/file", deep + "/copy_" + opk)):
                    if opk in ("copydir", "movedir") and dp.startswith(sp + "/"):
                        continue
                    c.op(opk, _ps(t, sp), _ps(t, dp))
            c.op("walkdir", "%d:" % t)
            c.op("snap", t)
            cases.append(c)
    return cases


def twin_overlay_cases(prefix):
    """two OverlayFS instances over the SAME layers (a second handle on the same stack, or the stack re-opened later):
    what one of them removed, re-created or wrote is what the other one sees - the state lives in the layers"""
    cases = []
    for bk in ("mem", "phys"):
        for variant in ("file", "subtree", "retype", "dirfresh", "three"):
            c = vfx.Case("%s_twin_%s_%s" % (prefix, bk, variant))
            g = Cfg()
            g.kind = "ovl_twin"
            nb = 3 if variant == "three" else 2
            for _ in range(nb):
                c.base(bk)
            insts = [c.fs("base", i) for i in range(nb)]
            toks = []
            for i in insts:
                toks += [i, "-"]
            a = c.fs("ovl", nb, *toks)
            b = c.fs("ovl", nb, *toks)
            g.target = b
            g.upper = (insts[0], "")
            g.lowers = [(i, "") for i in insts[1:]]
            g.prepop = list(g.lowers)
            g.watch = insts + [a]
            g.has_phys = bk == "phys"
            c.has_phys = g.has_phys
            c.cfg = g
            lo = insts[-1]
            c.op("createdirall", vfx.ps(lo, "d/e"))
            write_file(c, lo, "d/f", b"lower file")
            write_file(c, lo, "d/e/h", b"deeper")
            write_file(c, lo, "g", b"top file")
            c.op("snap", a); c.op("snap", b)
            # (no first_snap: the single-target contract oracle does not apply, the model is the reference)
            if variant in ("file", "three"):
                c.op("removefile", vfx.ps(a, "g"))
                c.op("removefile", vfx.ps(a, "d/f"))
            elif variant == "subtree":
                c.op("removedirall", vfx.ps(a, "d"))
            elif variant == "retype":
                c.op("removefile", vfx.ps(a, "g"))
                c.op("createdir", vfx.ps(a, "g"))
            elif variant == "dirfresh":
                c.op("removedirall", vfx.ps(a, "d"))
                c.op("createdir", vfx.ps(a, "d"))
            for q in ("g", "d", "d/f", "d/e", "d/e/h"):
                c.op("probe", vfx.ps(b, q))
            c.op("readdir", "%d:" % b)
            c.op("walkdir", "%d:" % b)
            h = c.op("appendfile", vfx.ps(b, "d/f")); c.op("hwrite", h, vfx.hexs(b"+")); c.op("hdrop", h)
            c.op("snap", b); c.op("snap", a)
            # now the second instance removes something itself, the first one looks
            c.op("removefile", vfx.ps(b, "d/e/h"))
            c.op("probe", vfx.ps(a, "d/e/h"))
            c.op("snap", a); c.op("snap", b)
            for w in insts:
                c.op("snap", w)
            cases.append(c)
    return cases


def big_text_cases(prefix, kinds):
    """valid UTF-8 texts longer than any I/O buffer, with a multi-byte character across every multiple of 4096 bytes up to
    64 KiB: written, read back as a string and through a handle, copied, appended to"""
    rng = random.Random(67)
    cases = []
    text = ""
    for k in range(1, 17):
        text += "t" * (4096 * k - 1 - len(text.encode())) + ("é" if k % 2 else "日")
    data = text.encode()
    for kind in kinds:
        c = vfx.Case("%s_bigtext_%s" % (prefix, kind))
        g = build_config(c, kind, rng)
        c.cfg = g
        t = g.target
        write_file(c, t, "big.txt", data)
        c.op("snap", t)
        c.first_snap = c.nops - 1
        c.op("readtostring", vfx.ps(t, "big.txt"))
        c.op("metadata", vfx.ps(t, "big.txt"))
        c.op("copyfile", vfx.ps(t, "big.txt"), vfx.ps(t, "copy.txt"))
        c.op("readtostring", vfx.ps(t, "copy.txt"))
        h = c.op("appendfile", vfx.ps(t, "copy.txt")); c.op("hwrite", h, vfx.hexs("語".encode())); c.op("hdrop", h)
        c.op("readtostring", vfx.ps(t, "copy.txt"))
        h = c.op("openfile", vfx.ps(t, "big.txt")); c.op("hread", h, 4095); c.op("hread", h, 3); c.op("hreadtoend", h); c.op("hdrop", h)
        c.op("snap", t)
        for w in g.watch:
            c.op("snap", w)
        cases.append(c)
    return cases


def overwrite_session_cases(prefix, kinds):
    """one write session that patches what it has already flushed: write, flush, seek back, overwrite WITHIN the flushed
    length (the size stays the same, only bytes change), or across its end, then drop without / with a second flush; and a
    second session over the file that writes the same number of bytes as it held"""
    rng = random.Random(71)
    cases = []
    for kind in kinds:
        for n0 in (4, 11):
            for off in (0, 2, n0 - 1):
                for patch in (b"7", b"ZZ", b"0123456789ab"):
                    for final_flush in (False, True):
                        c = vfx.Case("%s_patch_%s_%d_%d_%d_%d" % (prefix, kind, n0, off, len(patch), int(final_flush)))
                        g = build_config(c, kind, rng)
                        c.cfg = g
                        t = g.target
                        c.op("snap", t)
                        c.first_snap = c.nops - 1
                        h = c.op("createfile", vfx.ps(t, "f"))
                        c.op("hwrite", h, vfx.hexs(bytes(range(48, 48 + n0))))
                        c.op("hflush", h)
                        c.op("readtostring", vfx.ps(t, "f"))
                        c.op("hseek", h, "s", off)
                        c.op("hwrite", h, vfx.hexs(patch))
                        if final_flush:
                            c.op("hflush", h)
                        c.op("hdrop", h)
                        c.op("readtostring", vfx.ps(t, "f"))
                        c.op("metadata", vfx.ps(t, "f"))
                        c.op("snap", t)
                        # a new session over the existing file publishing exactly as many bytes as the file held
                        h2 = c.op("createfile", vfx.ps(t, "f"))
                        c.op("hwrite", h2, vfx.hexs(b"x" * max(n0, off + len(patch))))
                        c.op("hdrop", h2)
                        c.op("readtostring", vfx.ps(t, "f"))
                        c.op("snap", t)
                        for w in g.watch:
                            c.op("snap", w)
                        cases.append(c)
    return cases
