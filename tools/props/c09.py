"""C09 - OverlayFS shows the upper-shadows-lower union as an ordinary tree."""
from props import hist, histprop, c03



def known(d):
    """D28: a name ending in the marker suffix - the marker file of /a and the marker directory of /a_wo/* coincide;
    matched by the directed case family and the contract oracle's verdict, so that a model/implementation deviation
    on the same cases is still reported"""
    if "_wocollide_" in d.get("case", "") and d.get("spec"):
        return "D28"
    return c03.known(d)


def corpus_cases():
    return hist.marker_collision_cases("c09") + hist.wo_names_cases("c09") + \
        hist.lower_only_cases("c09", ["ovl_mm", "ovl_mmm", "ovl_alt", "ovl_pp"]) + hist.twin_overlay_cases("c09")


CONFIGS = ["ovl_m", "ovl_mm", "ovl_mmm", "ovl_4", "ovl_pmpm", "ovl_pp", "ovl_mp", "ovl_sub", "ovl_late", "alt_ovl", "ovl_alt", "ovl_ovl"]
P = histprop.HistProp(
    "C09", CONFIGS, typed=True, quick_cases=12, thorough_cases=150, nops=(10, 22), known=known, use_spec=True, corpus_cases=corpus_cases,
    prepop_density=0.8, with_times=False,
    rule=("typed histories through overlays of 1-3 memory/physical/mixed layers, layers that are sub-directories of one "
          "filesystem, altroot over overlay, overlay over altroots, nested overlays, with densely pre-populated layers (the "
          "same path in several layers with equal or different bytes, directories split across layers, upper sometimes "
          "pre-populated too); the initial tree is the implementation's own first snapshot (the union it presents) and from "
          "then on every call is checked against the abstract contracts by an oracle independent of the model (create over a "
          "lower-only entry must fail as existing, remove_dir with lower children as non-empty, append must continue the "
          "lower bytes); every call and snapshot is also compared with the model"),
    assumptions=["no cross-layer type conflicts in the initial layers (a path is not a file in one layer and a directory in another)"])
generate, corpus, run_and_compare, known = P.generate, P.corpus, P.run_and_compare, P.known
RULE, ASSUMPTIONS, BUILDS = P.RULE, P.ASSUMPTIONS, P.BUILDS
