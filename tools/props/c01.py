"""C01 - every backend implements one abstract file tree (operation contracts)."""
from props import hist, histprop, c03

def corpus_cases():
    """every operation on every kind of target (within the domain the property specifies)"""
    return hist.matrix_cases("c01", ["mem", "phys", "alt_mem", "alt_phys", "ovl_mm", "ovl_m", "ovl_pp", "ovl_sub", "alt_ovl",
                                     "ovl_alt", "ovl_ovl"], c01_domain=True) + hist.deleted_target_cases("c01") + \
        hist.neighbour_name_cases("c01", ["mem", "phys", "alt_mem", "ovl_mm", "ovl_m", "ovl_sub"]) + \
        hist.dotted_name_cases("c01", ["mem", "phys", "alt_mem", "alt_alt", "ovl_mm", "ovl_alt", "alt_ovl"])


P = histprop.HistProp(
    "C01", hist.CONFIGS, typed=True, corpus_cases=corpus_cases, quick_cases=8, thorough_cases=120, nops=(10, 22), known=c03.known, use_spec=True,
    rule=("typed histories (calls of the right type for their target mostly valid, 25% on arbitrary universe paths; no root "
          "removal, no copy into the own subtree, no touching of paths with an open write handle, no reserved names) over "
          "3-4 names from {a, ab, a.b, b, .x, x., A, 'a b', U+00E9, U+65E5} at depth <= 3 with contents up to 70 kB, on "
          "MemoryFS, PhysicalFS, altroot over each, overlays of 1-3 layers (memory, physical, mixed, sub-directories of one "
          "filesystem) with pre-populated lower layers, altroot over overlay, overlay over altroots, overlay over overlay; "
          "compared after every call: outcome class (ok / not-found / file-exists / directory-exists / other error), "
          "returned value, and a full snapshot (type, length, bytes of every entry)"),
    assumptions=["the exclusions of the property's quantifier are respected by the generator"])
generate, corpus, run_and_compare, known = P.generate, P.corpus, P.run_and_compare, P.known
RULE, ASSUMPTIONS, BUILDS = P.RULE, P.ASSUMPTIONS, P.BUILDS
