"""C06 - join is total, canonical, clamped at the root; parent/filename/extension/is_root agree."""
import itertools
import vfx
from props import common

RULE = ("every string over the alphabet {'/', '.', 'a', U+00E9} up to the length bound, joined onto each of "
        "the bases {root, /a, /a/b.c, /é/.x, /abc/d, /ab/cde/f, /é日/x} (component lengths rising and falling, multi-byte), observed through as_str, parent, filename, extension, is_root; root() inside chains; "
        "plus random longer arguments and chains; every observation also through AsyncVfsPath (its join is a separate function); a case is non-trivial if the argument has >= 2 characters and "
        "distinct by (base, argument); equality (==) between every pair of spellings of paths on every pair of seven instances "
        "(two MemoryFS, two altroots, three instances of a stateless zero-sized user filesystem), sync and async")
ASSUMPTIONS = ["join arguments are valid UTF-8 (the API takes &str)"]
ALPHA = ["/", ".", "a", "é"]
BASES = ["", "a", "a/b.c", "é/.x", "abc/d", "ab/cde/f", "é日/x"]


def py_resolve(base_comps, arg):
    """independent reference: lexical resolution"""
    if arg == "":
        return list(base_comps)
    comps = [] if arg.startswith("/") else list(base_comps)
    for c in arg.split("/"):
        if c in ("", "."):
            continue
        if c == "..":
            if comps:
                comps.pop()
        else:
            comps.append(c)
    return comps


def corpus():
    c = vfx.Case("c06corpus")
    c.base("mem")
    c.fs("base", 0)
    for arg in ["../..", "../../..", "../../x", "x/../../..", "...", "a/..../b", "....", "../..", "a/./../b", "/..", "a/", "/", "//", "a//b", ".a", "a.", "a..b", "..a", ".", "..", "é/../日", "x.tar.gz", ".hidden", "a/.b.c"]:
        for b in ["", "a/b.c", "abc/d", "ab/cde/f", "é日/x", "日本/d"]:
            add_ops(c, b, arg)
    # long arguments, valid and rejected, with a multi-byte character around every byte offset from 250 to 262 (a
    # rejected argument is carried in the error: formatting or shortening it must not trip over a character boundary)
    c2 = vfx.Case("c06long")
    c2.base("mem")
    c2.fs("base", 0)
    for L in range(248, 264):
        for tail in ("/", "", "/x", "//"):
            for b in ["", "é日/x"]:
                add_ops(c2, b, "a" * L + "é" + tail)
    for arg in ["ä/" * 100, "ä/" * 130 + "x", "/" + "日" * 90 + "/", "x" * 300, ("ab/" * 100) + ".."]:
        for b in ["", "a/b.c"]:
            add_ops(c2, b, arg)
    c3 = vfx.Case("c06root")
    c3.base("mem")
    c3.fs("base", 0)
    for b in ["", "a", "a/b.c", "é日/x", "ab/cde/f"]:
        for tail in ([], ["x"], ["PARENT"], ["../y"], ["ROOT"]):
            steps = ([b] if b else []) + ["ROOT"] + tail
            for k in ("asstr", "filename", "extension", "isroot"):
                c3.op(k, vfx.ps(0, *steps))
            c3.op("asstr", vfx.ps(0, *(steps + ["PARENT"])))
    return [c, c2, c3] + eq_cases()


def eq_cases():
    """equality: the same canonical string reached by different joins, different strings, and the same strings on other
    instances - two MemoryFS, two altroots over one of them, and three instances of a STATELESS user filesystem (a
    zero-sized type: nothing distinguishes two of them but their identity)"""
    c = vfx.Case("c06eq")
    for _ in range(5):
        c.base("mem")
    m0 = c.fs("base", 0)
    m1 = c.fs("base", 1)
    a0 = c.fs("alt", m0, vfx.hexs("/a"))
    a1 = c.fs("alt", m0, vfx.hexs("/a"))
    u0 = c.fs("unit", 2)
    u1 = c.fs("unit", 3)
    u2 = c.fs("unit", 4)
    insts = [m0, m1, a0, a1, u0, u1, u2]
    spellings = [[], ["a"], ["a/b"], ["a", "b"], ["a/./b"], ["a/x/../b"], ["a/b", "PARENT"], ["a/b/c", "PARENT"], ["/a"], ["b"],
                 ["a", "PARENT"], [".."], ["é"], ["é", "PARENT", "é"], ["a/b", "ROOT"], ["a/b", "ROOT", "a"], ["ROOT"]]
    for i in insts:
        for j in insts:
            for s1 in spellings:
                for s2 in (spellings if i == j else spellings[:4] + [["a", "PARENT"]]):
                    c.op("eq", vfx.ps(i, *s1) if s1 else "%d:" % i, vfx.ps(j, *s2) if s2 else "%d:" % j)
    return [c]


def add_ops(c, base, arg):
    steps = ([base] if base else []) + [arg]
    c.op("asstr", vfx.ps(0, *steps))
    c.op("asstr", vfx.ps(0, *(steps + ["PARENT"])))
    c.op("filename", vfx.ps(0, *steps))
    c.op("extension", vfx.ps(0, *steps))
    c.op("isroot", vfx.ps(0, *steps))


def generate(rng, tier):
    maxlen = 5 if tier == "quick" else 7
    cases = []
    cur = None
    n = 0
    for L in range(0, maxlen + 1):
        for tup in itertools.product(ALPHA, repeat=L):
            arg = "".join(tup)
            for b in BASES:
                if cur is None or cur.nops >= 400:
                    cur = vfx.Case("c06x%d" % len(cases))
                    cur.base("mem")
                    cur.fs("base", 0)
                    cases.append(cur)
                add_ops(cur, b, arg)
                n += 1
    # random longer arguments and chains of joins/parents
    words = ["a", "b.c", "..", ".", "", "日", ".x", "x.", "a b", "...", "é"]
    for k in range(300 if tier == "quick" else 3000):
        c = vfx.Case("c06r%d" % k)
        c.base("mem")
        c.fs("base", 0)
        steps = []
        for _ in range(rng.randint(1, 4)):
            if rng.random() < 0.2:
                steps.append("PARENT" if len(steps) % 3 else "ROOT")
            else:
                parts = [rng.choice(words) for _ in range(rng.randint(1, 6))]
                arg = "/".join(parts)
                if rng.random() < 0.15:
                    arg = "/" + arg
                steps.append(arg)
            c.op("asstr", vfx.ps(0, *steps))
            c.op("filename", vfx.ps(0, *steps))
            c.op("extension", vfx.ps(0, *steps))
        cases.append(c)
    return cases


def project(kind, case, step, optext, line):
    return line


def py_expected(optext):
    """what the property itself demands of as_str (None if not an as_str op without parent steps)"""
    toks = optext.split(" ")
    if toks[0] != "asstr":
        return None
    spec = toks[1].split(":", 1)[1]
    comps = []
    for st in spec.split(","):
        if st == "":
            continue
        if st == "p":
            comps = comps[:-1]
            continue
        if st == "r":
            comps = []
            continue
        arg = vfx.unhex(st[1:]).decode("utf-8")
        if len(arg) > 1 and arg.endswith("/"):
            return "err:InvalidPath:P" + vfx.hexs(arg)
        comps = py_resolve(comps, arg)
    return "ok:str:" + vfx.hexs("".join("/" + c for c in comps))


def run_and_compare(cases, tier):
    dis, mlines, ilines = common.run_cases(cases, "c06", project)
    # independent oracle on the implementation: canonical form and lexical resolution
    by_name = {c.name: c for c in cases}
    oracle_viol = []
    for (kind, cname, step), line in ilines.items():
        if kind != "r":
            continue
        c = by_name[cname]
        exp = py_expected(c.ops[step])
        if exp is not None and exp != line:
            oracle_viol.append((cname, step, exp, line))
    for d in dis:
        exp = py_expected(d["op"])
        # the model is proved to satisfy the property, so a deviation of the implementation from it on
        # these observations is a violation of the property itself
        d["violates"] = True
        d["note"] = "join/parent/filename/extension observation differs from the proved model" + (
            "; lexical resolution demands " + exp if exp else "")
    for (cname, step, exp, line) in oracle_viol[:3]:
        if not any(d["case"] == cname for d in dis):
            c = by_name[cname]
            dis.append({"case": cname, "case_text": c.text(), "step": step, "op": c.ops[step], "kind": "r",
                        "model": mlines.get(("r", cname, step)), "impl": line, "violates": True,
                        "note": "implementation differs from lexical resolution: expected " + exp})
    # the async port has its own join: the same observations through AsyncVfsPath must be the same strings
    alines = common.run_async(cases, "c06a")
    for k in sorted(ilines, key=lambda k: (k[1], k[2])):
        if k[0] != "r":
            continue
        if alines.get(k) != ilines[k] and not any(d["case"] == k[1] for d in dis):
            c = by_name[k[1]]
            dis.append({"case": k[1], "case_text": c.text(), "step": k[2], "op": c.ops[k[2]] + "  [AsyncVfsPath]", "kind": "r",
                        "model": mlines.get(k), "impl": alines.get(k), "violates": True,
                        "note": "AsyncVfsPath gives %s where VfsPath and the model give %s" % (alines.get(k), ilines[k])})
            if len(dis) > 5:
                break
    evals = sum(1 for k in ilines if k[0] == "r") + sum(1 for k in alines if k[0] == "r")
    distinct = len(set(c.ops[s] for c in cases for s in range(len(c.ops)) if len(c.ops[s]) > 12))
    outcomes = {}
    for k, v in ilines.items():
        key = v.split(":")[0] + ":" + (v.split(":")[1] if ":" in v else "")
        outcomes[key] = outcomes.get(key, 0) + 1
    stats = {"evaluations": evals, "distinct_nontrivial": distinct,
             "samples": [{"op": cases[-1].ops[0], "impl": ilines.get(("r", cases[-1].name, 0))},
                         {"op": cases[0].ops[7] if len(cases[0].ops) > 7 else cases[0].ops[0],
                          "impl": ilines.get(("r", cases[0].name, 7))}],
             "distribution": outcomes}
    return {"disagreements": dis, "stats": stats}
