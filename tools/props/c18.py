"""C18 - EmbeddedFS is a faithful read-only view of the embedded folder."""
import os
import vfx
from props import hist, histprop

FIX = os.path.join(vfx.HARNESS, "fixtures", "emb1")


def fixture_files():
    out = []
    for d, _, fs in os.walk(FIX):
        for f in fs:
            full = os.path.join(d, f)
            rel = os.path.relpath(full, FIX)
            out.append((rel, open(full, "rb").read()))
    return sorted(out)


def universe():
    files = [r for r, _ in fixture_files()]
    paths = {""}
    for r in files:
        parts = r.split("/")
        for i in range(1, len(parts) + 1):
            paths.add("/".join(parts[:i]))
    extra = set()
    for p in list(paths):
        if not p:
            continue
        extra.add(p + "x")              # extension of an existing name
        extra.add(p[:-1])               # prefix of an existing name
        extra.add(p + "/zz")            # below a file or an absent child of a directory
        extra.add(p + "/a")
    extra |= {"zz", "a/zz/a", ".", "a/../a.txt", "A.TXT", "é", "é/日", "é/日/a b.txt/"}
    # one-byte names next to the embedded ones, and names in which a backslash stands where an embedded path has a
    # separator: one (absent) component to this crate, whatever the embedding library makes of it
    extra |= {"g", "x", "_", "0", "z"}
    for r in files:
        if "/" in r:
            extra.add(r.replace("/", "\\"))
            extra.add(r.replace("/", "\\", 1))
            head, _, tail = r.rpartition("/")
            extra.add(head + "\\" + tail)
    return sorted(paths | extra)


BUILT = [0]


def build(c):
    for rel, data in fixture_files():
        c.embfile(rel, data)
    BUILT[0] += 1
    c.base("emb" if BUILT[0] % 2 else "embd")       # both public constructors: new() and Default::default()
    for rel, data in fixture_files():
        c.embfile(rel, data)
    c.base("physfix")
    c.base("embempty")
    c.base("mem")
    e = c.fs("base", 0)
    p = c.fs("base", 1)
    z = c.fs("base", 2)
    m = c.fs("base", 3)
    c.has_phys = True
    return e, p, z, m


OBS = ["exists", "metadata", "isfile", "isdir", "readdir", "readtostring", "walkdir", "probe", "filename", "extension"]


def gen_cases(rng, tier):
    cases = []
    uni = universe()
    c = None
    pairs = []
    for path in uni:
        if path.endswith("/") and len(path) > 1:
            continue
        for k in OBS:
            if c is None or c.nops > 150:
                c = vfx.Case("c18_obs_%d" % len(cases))
                c.ids = build(c)
                c.pairs = []
                cases.append(c)
            e, p, z, m = c.ids
            a = c.op(k, vfx.ps(e, path) if path else "%d:" % e)
            b = c.op(k, vfx.ps(p, path) if path else "%d:" % p)
            c.pairs.append((a, b))
    # handles: embedded files are std cursors
    for i in range(6 if tier == "quick" else 60):
        c = vfx.Case("c18_h_%d" % i)
        c.ids = build(c)
        c.pairs = []
        e, p, z, m = c.ids
        f = rng.choice([r for r, _ in fixture_files()])
        script = []
        for _ in range(8):
            x = rng.random()
            if x < 0.5:
                script.append(("hread", [rng.choice([0, 1, 3, 4096, 10000])]))
            elif x < 0.7:
                script.append(("hseek", ["s", rng.choice([0, 1, 5, 9000, 9001])]))
            elif x < 0.85:
                script.append(("hseek", ["c", rng.choice([0, -1, 1, -9001, 7])]))
            else:
                script.append(("hseek", ["e", rng.choice([0, -1, -5, 1, -10000])]))
        script.append(("hreadtoend", []))
        steps = {}
        for inst in (e, p):
            r = c.op("openfile", vfx.ps(inst, f))
            steps[inst] = [r] + [c.op(k, r, *args) for (k, args) in script]
            c.op("hdrop", r)
        c.pairs = list(zip(steps[e], steps[p]))
        cases.append(c)
    # mutators are refused and change nothing; the empty folder; copying out of the embedded filesystem
    c = vfx.Case("c18_mut")
    c.ids = build(c)
    c.pairs = []
    e, p, z, m = c.ids
    c.t0 = c.op("tree", e)
    c.mut = []
    for path in ["", "a.txt", "a", "new", "a/new", "é/日/a b.txt"]:
        sp = vfx.ps(e, path) if path else "%d:" % e
        for k in ["createdir", "createdirall", "removefile", "removedir", "removedirall"]:
            if k in ("removedir", "removedirall") and path == "":
                continue
            c.mut.append((c.op(k, sp), k, path))
        for k in ["createfile", "appendfile"]:
            i = c.op(k, sp)
            c.mut.append((i, k, path))
            c.op("hdrop", i)
        for k in ["setctime", "setmtime", "setatime"]:
            c.mut.append((c.op(k, sp, 12345), k, path))
        # ... and with exactly the value the entry already reports: still a mutating call, still refused
        for fld in ("c", "m", "a"):
            c.same = getattr(c, "same", []) + [c.op("setsame", fld, sp)]
        c.mut.append((c.op("copyfile", vfx.ps(e, "a.txt"), vfx.ps(e, "copy.txt")), "copyfile", path))
        c.mut.append((c.op("movefile", vfx.ps(e, "a.txt"), vfx.ps(e, "moved.txt")), "movefile", path))
    c.t1 = c.op("tree", e)
    c.op("copyfile", vfx.ps(e, "a/big.bin"), vfx.ps(m, "big.bin"))
    c.op("copydir", vfx.ps(e, "a"), vfx.ps(m, "acopy"))
    c.op("snap", m)
    for k in ["exists", "metadata", "readdir", "walkdir", "probe", "isdir", "isfile", "openfile"]:
        i = c.op(k, "%d:" % z)
        if k == "openfile":
            c.op("hdrop", i)
    for k in ["exists", "metadata", "readdir", "probe"]:
        c.op(k, vfx.ps(z, "a"))
    cases.append(c)
    return cases


def view(line):
    """existence, type, length, bytes, listings, walks; any error is just 'error'"""
    if line is None:
        return None
    v = histprop.contract_view(line)
    import re
    return re.sub(r"err:[A-Za-z-]+", "err", re.sub(r"e[A-Za-z-]+(?=,|$)", "err", v) if v.startswith("ok:items") else v)


def oracle(cases, mlines, ilines):
    out = []
    for c in cases:
        for (a, b) in getattr(c, "pairs", []):
            la, lb = ilines.get(("r", c.name, a)), ilines.get(("r", c.name, b))
            if view(la) != view(lb):
                out.append({"case": c.name, "case_text": c.text(), "step": a, "op": c.ops[a], "kind": "r",
                            "model": mlines.get(("r", c.name, a)), "impl": la, "violates": True,
                            "note": "EmbeddedFS answers %s where PhysicalFS on the same folder answers %s" % ((la or "")[:120], (lb or "")[:120])})
        for (i, k, path) in getattr(c, "mut", []):
            l = ilines.get(("r", c.name, i))
            if k in ("createdirall", "removedirall", "copyfile", "movefile"):
                continue        # composites: decided by the unchanged tree below
            if not l or not l.startswith("err:NotSupported"):
                out.append({"case": c.name, "case_text": c.text(), "step": i, "op": c.ops[i], "kind": "r",
                            "model": mlines.get(("r", c.name, i)), "impl": l, "violates": True,
                            "note": "mutating call %s on EmbeddedFS is not refused as not-supported: %s" % (k, l)})
        for i in getattr(c, "same", []):
            l = ilines.get(("r", c.name, i)) or ""
            if not (l.startswith("err:NotSupported") or l.startswith("err:NotFound") or l == "ok:optstr:none"):
                out.append({"case": c.name, "case_text": c.text(), "step": i, "op": c.ops[i], "kind": "r",
                            "model": mlines.get(("r", c.name, i)), "impl": l, "violates": True,
                            "note": "a time setter called with the entry's own current value is not refused as not-supported: %s" % l})
        if hasattr(c, "t0") and ilines.get(("r", c.name, c.t0)) != ilines.get(("r", c.name, c.t1)):
            out.append({"case": c.name, "case_text": c.text(), "step": c.t1, "op": "tree", "kind": "r",
                        "model": None, "impl": ilines.get(("r", c.name, c.t1)), "violates": True,
                        "note": "the embedded filesystem changed although every mutating call is refused"})
    return out


def project(kind, case, step, op, line):
    if op.startswith("setsame"):
        return "-"          # judged by the oracle on the implementation (the driver has no such operation)
    return histprop.contract_view(line) if line is not None else None


P = histprop.HistProp(
    "C18", [], project=project, extra_gen=gen_cases, oracle=oracle, builds=(False, True),
    rule=("a fixture folder with nested, dotted, multi-byte and prefix-sharing names (a, ab, a.b, a.txt, ab.c, .x, 'x.', U+00E9, "
          "U+65E5, 'a b.txt', an empty file, a 9000-byte file, a non-UTF-8 file) embedded with rust-embed; every public observer "
          "on every embedded file, implied directory, the root, absent siblings, prefixes and extensions of names and paths "
          "below files, on EmbeddedFS and on PhysicalFS over the same folder (oracle: identical existence, type, length, bytes, "
          "listings, walks); read/seek scripts on embedded handles; every mutating call refused as not-supported with an "
          "unchanged stat-only tree; an empty embedded folder; copies out of the embedded filesystem; all compared with the model"),
    assumptions=["rust-embed delivers the files of the folder; the harness embeds with debug-embed and is run as a debug AND as a "
                 "release build, so both ways rust-embed hands out names (owned, borrowed) are exercised"])
generate, corpus, run_and_compare, known = P.generate, P.corpus, P.run_and_compare, P.known
RULE, ASSUMPTIONS, BUILDS = P.RULE, P.ASSUMPTIONS, P.BUILDS
