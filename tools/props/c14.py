"""C14 - file handles obey the Read, Write and Seek contracts."""
import vfx
from props import hist, histprop

CONFIGS = ["mem", "phys", "alt_mem", "ovl_mm", "ovl_pp", "ovl_sub"]
I64MAX = 9223372036854775807
I64MIN = -9223372036854775808
U64MAX = 18446744073709551615


def script_cases(rng, tier):
    cases = []
    n = 40 if tier == "quick" else 600
    for kind in CONFIGS:
        for i in range(n):
            c = vfx.Case("c14_%s_%d" % (kind, i))
            g = hist.build_config(c, kind, rng)
            t = g.target
            content = rng.choice([b"", b"a", b"hello world", bytes(range(40)), bytes((j * 5) % 256 for j in range(300))])
            L = len(content)
            # the file lives in a lower layer half of the time when there is one
            where = (g.prepop[0] if g.prepop and rng.random() < 0.5 else (t, ""))
            hist.write_file(c, where[0], (where[1][1:] + "/" if where[1] else "") + "f", content)
            r = c.op("openfile", vfx.ps(t, "f"))
            # on a real disk the largest seekable offset depends on the host filesystem (s_maxbytes)
            offs = [0, 1, -1, L - 1, L, L + 1, -L, -L - 1, 7, I64MIN, 2 ** 40] + ([] if g.has_phys else [I64MAX])
            for _ in range(rng.randint(3, 9)):
                x = rng.random()
                if x < 0.45:
                    c.op("hread", r, rng.choice([0, 1, 1, 2, 7, L, L + 5, 4096]))
                elif x < 0.6:
                    c.op("hseek", r, "s", rng.choice([0, 1, max(L - 1, 0), L, L + 1, L + 100, 2 ** 40, U64MAX if not g.has_phys else 2 ** 40]))
                elif x < 0.8:
                    c.op("hseek", r, "c", rng.choice(offs))
                else:
                    c.op("hseek", r, "e", rng.choice(offs))
            c.op("hreadtoend", r)
            # a drained handle is at its end: nothing more to read, relative seeks start there, a second drain is empty
            c.op("hread", r, rng.choice([1, 3, 4096])); c.op("hseek", r, "c", 0); c.op("hreadtoend", r)
            c.op("hseek", r, "c", rng.choice([-1, -2, -L])); c.op("hread", r, 2)
            c.op("hseek", r, "s", rng.choice([0, 1, max(L - 1, 0)])); c.op("hreadtoend", r); c.op("hseek", r, "e", 0)
            c.op("hdrop", r)
            # writer scripts on a create handle; on the in-memory configurations also on an append handle
            w = c.op("createfile", vfx.ps(t, "g"))
            buf = hist.session_script(c, rng, w, b"", 0, t, first=rng.choice([b"", b"x", b"hello world", bytes(range(20))]))
            if rng.random() < 0.7:
                c.op("hflush", w)
                c.op("readtostring", vfx.ps(t, "g"))
                hist.session_script(c, rng, w, buf, len(buf), t)
            for _ in range(rng.randint(0, 2)):
                c.op("hseek", w, "c", rng.choice([0, 1, -1, -3, 10, I64MIN]))
                c.op("hseek", w, "e", rng.choice([0, -1, 1, 9, -100]))
            if not g.has_phys and i % 5 == 1:
                # a write after a seek FAR past the end (beyond isize::MAX bytes) is refused, the handle stays usable
                # (repair 14b1c2a; the model's write_too_large) - in-memory handles only
                c.op("hseek", w, "s", rng.choice([U64MAX, 2 ** 63, I64MAX, U64MAX - 1]))
                c.op("hwrite", w, vfx.hexs(rng.choice([b"Z", b"zz"])))
                c.op("hseek", w, "s", rng.choice([0, 1, 2]))
                c.op("hwrite", w, vfx.hexs(b"q"))
            # every third script: the handle goes out of scope while its owner unwinds from a panic - a drop like any other
            c.op("hdropunwind" if i % 3 == 2 else "hdrop", w)
            c.op("snap", t)
            if not g.has_phys:
                a = c.op("appendfile", vfx.ps(t, "f"))
                c.op("hwrite", a, vfx.hexs(b"++"))
                wh = rng.choice(["s", "c", "e"])
                c.op("hseek", a, wh, rng.choice([0, 1, 3] if wh == "s" else [0, 1, -1, 3]))
                c.op("hwrite", a, vfx.hexs(b"!"))
                c.op("hdropunwind" if i % 4 == 1 else "hdrop", a)
                c.op("snap", t)
            # a create handle over an EXISTING non-empty file starts empty: its end is 0, and what is published is what
            # was written through it, not the old tail
            w2 = c.op("createfile", vfx.ps(t, "f"))
            c.op("hseek", w2, "e", 0)
            if rng.random() < 0.6:
                c.op("hwrite", w2, vfx.hexs(rng.choice([b"ab", b"x", b"shorter"])))
                c.op("hseek", w2, "e", rng.choice([0, -1]))
            c.op("hdrop", w2)
            c.op("readtostring", vfx.ps(t, "f"))
            c.op("snap", t)
            cases.append(c)
    return cases


def project(kind, case, step, op, line):
    return histprop.abstract_errors(hist.strip_times(line)) if line is not None else None


P = histprop.HistProp(
    "C14", [], project=project, extra_gen=script_cases, builds=(False, True),
    corpus_cases=lambda: hist.open_handle_cases("c14", ["mem", "alt_mem", "ovl_mm", "ovl_mmm", "ovl_sub", "alt_ovl"]),
    rule=("handle scripts: read(n) with n in {0,1,2,7,len,len+5,4096}, seek(Start|Current|End) with offsets from "
          "{0,+-1,len-1,len,len+1,-len,-len-1,i64::MIN,i64::MAX,2^40,u64::MAX} on read handles (file in the upper or in a lower "
          "layer), each script continued after a read_to_end (the drained handle must sit at its end); write/seek/flush scripts on create handles, also on a create handle over an existing non-empty file (it starts "
          "empty); seek on append handles on the in-memory configurations only; "
          "a write after a seek beyond isize::MAX bytes is refused and the handle stays usable (in-memory handles); every third write handle is dropped while its owner unwinds from a panic (harness op hdropunwind: a drop like any other); "
          "every handle call's return value and the published bytes are compared, in debug and release builds"),
    assumptions=["write positions stay small (Vec allocation)", "std::io::Cursor semantics as stated in Base/Handles.v"])
generate, corpus, known = P.generate, P.corpus, P.known
ASSUMPTIONS, BUILDS = P.ASSUMPTIONS, P.BUILDS
RULE = P.RULE + ("; the ASYNC port's read handles: seek / read scripts over both ends (failing seeks followed by reads, reads "
                 "after a drain) on memory, altroot, overlay and physical backends, compared with the sync handles and the async model")


def run_and_compare(cases, tier):
    from props import c15
    res = P.run_and_compare(cases, tier)
    sub = hist.reader_seek_cases("c14a", ["mem", "alt_mem", "ovl_mm", "phys"])
    sync, asy, pend, amodel = c15.run_variants(sub, "c14a", seed=14)
    by = {c.name: c for c in sub}
    seen = set()
    n = 0
    for k in sorted(set(sync) | set(asy) | set(pend) | set(amodel), key=lambda k: (k[1], k[2], k[0])):
        kind, cname, step = k
        if kind != "r" or cname in seen:
            continue
        c = by[cname]
        op = c.ops[step] if step < c.nops else ""
        views = [histprop.abstract_errors(hist.strip_times(x)) if x is not None else None for x in (sync.get(k), asy.get(k), pend.get(k), amodel.get(k))]
        n += 1
        if len(set(views)) > 1:
            seen.add(cname)
            res["disagreements"].append({"case": cname, "case_text": c.text(), "step": step, "op": op, "kind": "r", "model": amodel.get(k),
                                         "impl": asy.get(k), "violates": True,
                                         "note": "async read handle at `%s`: sync %s / async %s / pending %s / async model %s" % (
                                             op[:40], (views[0] or "")[:60], (views[1] or "")[:60], (views[2] or "")[:60], (views[3] or "")[:60])})
    res["stats"].setdefault("distribution", {})["async_reader_lines_compared"] = n
    return res
