"""probing the finite path universe of a case"""
import itertools
import vfx
from props import hist


def universe(names, depth=2):
    out = [()]
    for d in range(1, depth + 1):
        out += list(itertools.product(names, repeat=d))
    return out


def add_probes(c, t, names, depth=2, extra=None):
    """probe every universe path on instance t; returns {path tuple: step}"""
    steps = {}
    for p in universe(names, depth) + (extra or []):
        if p in steps:
            continue
        steps[p] = c.op("probe", vfx.ps(t, hist.rel(p)) if p else "%d:" % t)
    return steps


def parse_probe(line):
    """ok:probe:<exists>;<meta>;<isfile>;<isdir>;<list>;<read> -> dict of raw fields"""
    if line is None or not line.startswith("ok:probe:"):
        return None
    f = line[len("ok:probe:"):].split(";")
    return {"exists": f[0], "meta": f[1], "isfile": f[2], "isdir": f[3], "list": f[4], "read": f[5]}
