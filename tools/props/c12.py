"""C12 - errors name the caller's path and classify consistently."""
import re
import vfx
from props import hist, histprop, spec

CONFIGS = hist.CONFIGS


def project(kind, case, step, op, line):
    """errors in full (kind and path), values without timestamps"""
    return hist.strip_times(line) if line is not None else None


ERR = re.compile(r"(?:err:|e)([A-Za-z-]+)[:@](U|P[0-9a-f-]*)")


def near(p, q):
    return p[:len(q)] == q or q[:len(p)] == p


def comps(hexpath):
    s = vfx.unhex(hexpath).decode("utf-8", "replace")
    return tuple(x for x in s.split("/") if x)


def oracle(cases, mlines, ilines):
    """on the implementation alone: every error of every public call carries a path of the caller's
    namespace - the call's path, its destination, an ancestor or a descendant - never the placeholder"""
    out = []
    for c in cases:
        t = c.cfg.target
        for step, op in enumerate(c.ops):
            toks = op.split(" ")
            if len(toks) < 2 or ":" not in toks[1] or toks[0] in ("snap", "tree", "probe"):
                continue
            line = ilines.get(("r", c.name, step))
            if not line or ("err" not in line and "e" not in line):
                continue
            if not (line.startswith("err:") or line.startswith("ok:items:")):
                continue
            k, p = spec.resolve_spec(toks[1])
            paths = [p] if p is not None else []
            raw = []
            for x in toks[1:3]:
                if ":" in x and x.split(":")[0].isdigit():
                    kk, pp = spec.resolve_spec(x)
                    if pp is not None:
                        paths.append(pp)
                    raw += [vfx.unhex(st[1:]) for st in x.split(":", 1)[1].split(",") if st.startswith("j")]
            for m in ERR.finditer(line):
                kind, ep = m.group(1), m.group(2)
                bad = None
                if ep == "U":
                    bad = "error %s carries the unfilled placeholder path" % kind
                else:
                    b = vfx.unhex(ep[1:] or "-")
                    if kind == "InvalidPath":
                        if b not in raw:
                            bad = "invalid-path error names %r, not the rejected argument" % b
                    else:
                        q = tuple(x for x in b.decode("utf-8", "replace").split("/") if x)
                        if not any(near(pp, q) for pp in paths):
                            bad = "error %s names %r, which is neither the call's path, its destination nor an ancestor/descendant" % (kind, b)
                if bad:
                    out.append({"case": c.name, "case_text": c.text(), "step": step, "op": op, "kind": "r",
                                "model": mlines.get(("r", c.name, step)), "impl": line, "violates": True, "note": bad})
                    break
    return out


JOIN_ARGS = ["foo/", "/foo/", "a/b/", "/a/b/", "//", "/", "a//", "./", "../", "/..", "é/", "/é/", "d/e/", "/d/e/", "d/../d/",
             "/d/./", "g/", "/g/", ".", "", "d//e", "/d//e/"]


def corpus_cases():
    """the classification clauses, directed: every spelling of a trailing slash (relative, absolute, after dots, after a
    file, doubled, multi-byte) from the root and from a sub-directory, on every configuration - invalid-path naming the
    rejected argument; and every operation on every kind of target for the not-found / exists / not-supported classes"""
    import random
    rng = random.Random(17)
    cases = []
    for kind in CONFIGS:
        c = vfx.Case("c12_join_%s" % kind)
        g = hist.build_config(c, kind, rng)
        c.cfg = g
        t = g.target
        hist._matrix_setup(c, t)
        for a in JOIN_ARGS:
            spec1 = "%d:j%s" % (t, vfx.hexs(a))
            spec2 = "%d:j%s,j%s" % (t, vfx.hexs("d"), vfx.hexs(a))
            for sp in (spec1, spec2):
                c.op("asstr", sp)
                c.op("exists", sp)
                c.op("createdir", sp)
        c.op("snap", t)
        cases.append(c)
    cases += hist.matrix_cases("c12", ["mem", "phys", "alt_mem", "ovl_mm", "ovl_sub", "alt_ovl"])
    # error ITEMS of a walk: entries that vanish behind the iterator's back after 0..3 items (files, directories, a whole
    # sub-tree); the lookup of a listed entry then fails, and the item must name the walked path in the caller's namespace
    for kind in ["mem", "phys", "alt_mem", "ovl_mm", "ovl_sub", "alt_ovl"]:
        c = vfx.Case("c12_walkrm_%s" % kind)
        g = hist.build_config(c, kind, rng)
        c.cfg = g
        t = g.target
        for k, victim in ((0, "wk/a/f1"), (1, "wk/z1"), (2, "wk/a/b"), (1, "wk/a"), (0, "wk/z2"), (3, "wk/a/b/deep"), (1, "wk/a/f2")):
            c.op("createdirall", vfx.ps(t, "wk/a/b"))
            for n in ("wk/a/f1", "wk/a/f2", "wk/z1", "wk/z2", "wk/a/b/deep"):
                hist.write_file(c, t, n, b"w")
            c.op("walkrm", vfx.ps(t, "wk"), k, vfx.ps(t, victim))
            c.op("walkrm", "%d:" % t, k + 1, vfx.ps(t, victim if victim != "wk/a/f2" else "wk/a/f1"))
        c.op("snap", t)
        cases.append(c)
    cases += hist.long_path_cases("c12", ["mem", "phys", "alt_mem", "ovl_mm", "ovl_sub"])
    return cases


MIX = (["createdir"] * 2 + ["createfile"] * 2 + ["append"] * 2 + ["removefile"] * 2 + ["removedir"] * 2 + ["createdirall"] * 3
       + ["removedirall"] * 2 + ["copyfile", "movefile", "copydir", "movedir", "readdir", "metadata", "readtostring", "walkdir",
          "isfile", "isdir", "settime", "settime"])
P = histprop.HistProp(
    "C12", CONFIGS, typed=False, mix=MIX, with_times=True, project=project, quick_cases=8, thorough_cases=100, nops=(14, 26),
    oracle=oracle, hostile=0.3, allow_big=False, prepop_density=0.6, corpus_cases=corpus_cases,
    rule=("DIRECTED: 22 join arguments around the trailing slash (relative, absolute, doubled, after dots, after a file, "
          "multi-byte) from the root and from a sub-directory on all 15 configurations, and every operation on every kind of "
          "target on six of them, and walks whose listed entries vanish behind the iterator after 0..4 items (error items) on the same six; RANDOM: untyped histories (so that most calls fail) on all 15 configurations (up to three adapter boundaries), 30% of the "
          "arguments spelled non-canonically and some with a trailing slash; compared with the model: kind and path of every "
          "error, including the error items of walk_dir; oracle on the implementation alone: the path of every error is the "
          "call's path, its destination, an ancestor or a descendant in the caller's namespace, never the placeholder, and "
          "invalid-path errors name the rejected argument"),
    assumptions=["custom filesystems whose exists() fails are outside the built-in stackings the theorem C12_exists_total covers"])
generate, corpus, known = P.generate, P.corpus, P.known
ASSUMPTIONS, BUILDS = P.ASSUMPTIONS, P.BUILDS
RULE = P.RULE + ("; create_dir / create_dir_all on names occupied by a dangling symbolic link and by a link loop on PhysicalFS, "
                 "through an altroot and as an overlay's write layer (oracle on the implementation: file-exists / directory-exists)"
                 "; the ASYNC port: the directed cases on the configurations available there run through the async API "
                 "(tokio current-thread runtime) and every failing call's kind and path is compared with the async model")


def async_errors(cases):
    """the async port classifies and names errors like the sync API: the directed cases through the async harness against
    the async model, kind and path of every failing call (and of every error item of a walk)"""
    from props import c15
    sub = [c for c in cases if (c.name.startswith("c12_mx_") or c.name.startswith("c12_join_")) and c.cfg.kind in c15.CONFIGS]
    if not sub:
        return [], 0
    _sync, asy, _pend, amodel = c15.run_variants(sub, "c12a", seed=12)
    by = {c.name: c for c in sub}
    out, seen, n = [], set(), 0
    for k in sorted(set(asy) | set(amodel), key=lambda k: (k[1], k[2], k[0])):
        kind, cname, step = k
        if kind != "r" or cname in seen:
            continue
        a, m = asy.get(k), amodel.get(k)
        ea, em = ERR.findall(a or ""), ERR.findall(m or "")
        if not ea and not em:
            continue
        n += 1
        c = by[cname]
        op = c.ops[step] if step < c.nops else ""
        if op.split(" ")[0] in ("snap", "tree", "probe"):
            continue
        if op.split(" ")[0] in ("setctime", "setmtime", "setatime") and not getattr(c, "has_phys", False) and \
                [e[0] for e in ea] == ["NotSupported"]:
            continue      # the async MemoryFS implements no time setter (C15's finding D23a); not-supported is the right class
        if ea != em:
            seen.add(cname)
            out.append({"case": cname, "case_text": c.text(), "step": step, "op": op, "kind": "r", "model": m, "impl": a,
                        "violates": True,
                        "note": "async port: errors %s, async model: %s at `%s`" % (ea[:3], em[:3], op[:60])})
    return out, n


def occupied_by_links():
    """create_dir on a name that is taken by something metadata() cannot resolve - a dangling symbolic link, a link
    loop - directly, through altroots and as an overlay's write layer: the target is occupied, the class is
    file-exists / directory-exists.  Judged on the implementation alone (symbolic links are outside the model)."""
    import random
    rng = random.Random(12)
    cases = []
    for kind in ("phys", "alt_phys", "ovl_pp"):
        c = vfx.Case("c12_links_%s" % kind)
        g = hist.build_config(c, kind, rng)
        c.cfg = g
        t = g.target
        sub = g.alt_under[1] if g.alt_under else ""
        for n, target in (("dangling", "/nonexistent/target"), ("loop", "loop")):
            c.op("xsymlink", 0, vfx.hexs((sub[1:] + "/" if sub else "") + n), vfx.hexs(target))
        c.want = []
        for n in ("dangling", "loop"):
            c.want.append(c.op("createdir", vfx.ps(t, n)))
            c.want.append(c.op("createdirall", vfx.ps(t, n + "/below")))
        cases.append(c)
    _m, ilines = vfx.run_both("".join(c.text() for c in cases), "c12l")
    out = []
    for c in cases:
        for step in c.want:
            line = ilines.get(("r", c.name, step)) or ""
            kinds = [k for k, _p in ERR.findall(line)]
            if kinds[:1] not in (["FileExists"], ["DirExists"]):
                out.append({"case": c.name, "case_text": c.text(), "step": step, "op": c.ops[step], "kind": "r", "model": None,
                            "impl": line, "violates": True,
                            "note": "create_dir on a name occupied by a dangling / looping symbolic link is classified %s, "
                                    "not file-exists / directory-exists" % (kinds[:1] or line[:40])})
                break
    return out, sum(len(c.want) for c in cases)


def run_and_compare(cases, tier):
    res = P.run_and_compare(cases, tier)
    ldis, ln = occupied_by_links()
    res["disagreements"] = res["disagreements"] + ldis
    res["stats"].setdefault("distribution", {})["link_occupied_targets_checked"] = ln
    dis, n = async_errors(cases)
    res["disagreements"] = res["disagreements"] + dis
    res["stats"].setdefault("distribution", {})["async_error_lines_compared"] = n
    return res
