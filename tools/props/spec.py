"""The abstract tree and the documented contracts of the path API, as an oracle that is independent of the
Coq model: it is applied to the IMPLEMENTATION's transcript only (DESIGN.md 4.3).  State = dict mapping a
component tuple to 'd' (directory) or bytes (file)."""
import vfx
from props import c06


def resolve_spec(spec):
    """pathspec text -> (instance, component tuple) or (instance, None) if a join is rejected"""
    k, steps = spec.split(":", 1)
    comps = []
    for st in steps.split(","):
        if st == "":
            continue
        if st == "p":
            comps = comps[:-1]
            continue
        arg = vfx.unhex(st[1:]).decode("utf-8")
        if len(arg) > 1 and arg.endswith("/"):
            return int(k), None
        comps = c06.py_resolve(comps, arg)
    return int(k), tuple(comps)


def tree_of_snapshot(line):
    """ok:snap line of the implementation -> tree (None if the snapshot contains errors)"""
    if line is None or not line.startswith("ok:snap:"):
        return None
    t = {}
    for ent in line[len("ok:snap:"):].split("|"):
        f = ent.split(";")
        path = () if f[0] == "-" else tuple(vfx.unhex(f[0]).decode("utf-8", "surrogateescape").split("/")[1:])
        md = f[1]
        if md.startswith("ok:meta:dir"):
            t[path] = "d"
        elif md.startswith("ok:meta:file"):
            if f[2].startswith("ok:bytes:"):
                t[path] = vfx.unhex(f[2][len("ok:bytes:"):])
            else:
                return None
        else:
            return None
    return t


def snapshot_lens_ok(line):
    """metadata length equals the number of bytes read, directories report 0"""
    for ent in line[len("ok:snap:"):].split("|"):
        f = ent.split(";")
        if f[1].startswith("ok:meta:file:") and f[2].startswith("ok:bytes:"):
            n = int(f[1].split(":")[3])
            if n != len(vfx.unhex(f[2][len("ok:bytes:"):])):
                return False
        if f[1].startswith("ok:meta:dir:") and f[1].split(":")[3] != "0":
            return False
    return True


class Spec:
    def __init__(self, tree):
        self.t = dict(tree)
        self.handles = {}       # op index -> dict(path, buf, pos, kind)

    # ---- helpers
    def is_dir(self, p):
        return self.t.get(p) == "d"

    def is_file(self, p):
        return p in self.t and self.t[p] != "d"

    def parent_ok(self, p):
        return len(p) > 0 and self.is_dir(p[:-1])

    def children(self, p):
        return sorted(q for q in self.t if len(q) == len(p) + 1 and q[:len(p)] == p)

    def descendants(self, p):
        return sorted(q for q in self.t if len(q) > len(p) and q[:len(p)] == p)

    def missing_class(self, p):
        """class for a missing target: not-found when the parent is an existing directory"""
        return "NotFound" if self.parent_ok(p) else "err"

    # ---- the contracts; each returns the expected outcome class
    def create_dir(self, p):
        if not self.parent_ok(p):
            return "err"
        if p in self.t:
            return "DirExists" if self.is_dir(p) else "FileExists"
        self.t[p] = "d"
        return "ok"

    def create_dir_all(self, p):
        for i in range(1, len(p) + 1):
            if self.is_file(p[:i]):
                return "err"
        for i in range(1, len(p) + 1):
            self.t[p[:i]] = "d"
        return "ok"

    def create_file(self, idx, p):
        if not self.parent_ok(p) or self.is_dir(p):
            return "err"
        self.t[p] = b""
        self.handles[idx] = {"path": p, "buf": bytearray(), "pos": 0, "kind": "w"}
        return "ok"

    def append_file(self, idx, p):
        if self.is_file(p):
            self.handles[idx] = {"path": p, "buf": bytearray(self.t[p]), "pos": len(self.t[p]), "kind": "w"}
            return "ok"
        if p in self.t:
            return "err"
        return self.missing_class(p)

    def open_file(self, idx, p):
        if self.is_file(p):
            self.handles[idx] = {"path": p, "buf": bytes(self.t[p]), "pos": 0, "kind": "r"}
            return "ok"
        if p in self.t:
            return "err"
        return self.missing_class(p)

    def publish(self, h):
        if h["kind"] == "w" and self.is_file(h["path"]):
            self.t[h["path"]] = bytes(h["buf"])

    def hwrite(self, r, data):
        h = self.handles.get(r)
        if not h or h["kind"] != "w":
            return None
        if data:
            if h["pos"] > len(h["buf"]):
                h["buf"].extend(b"\x00" * (h["pos"] - len(h["buf"])))
            h["buf"][h["pos"]:h["pos"] + len(data)] = data
            h["pos"] += len(data)
        return "ok"

    def hseek(self, r, wh, off):
        h = self.handles.get(r)
        if not h:
            return None
        base = {"s": 0, "c": h["pos"], "e": len(h["buf"])}[wh]
        n = base + off
        if n < 0 or n > 2 ** 64 - 1:
            return "err"
        h["pos"] = n
        return "ok"

    def hread(self, r, n, exact):
        """bytes a read handle must deliver (exact: read until n bytes or the end; else: one read call, which may be
        short but not empty before the end) and the cursor afterwards; None if this is not a read handle"""
        h = self.handles.get(r)
        if not h or h["kind"] != "r":
            return None
        want = h["buf"][h["pos"]:h["pos"] + n] if h["pos"] < len(h["buf"]) else b""
        return want

    def hread_done(self, r, k):
        h = self.handles.get(r)
        if h:
            h["pos"] += k

    def hflush(self, r):
        h = self.handles.get(r)
        if not h:
            return None
        self.publish(h)
        return "ok"

    def hdrop(self, r):
        h = self.handles.pop(r, None)
        if not h:
            return None
        self.publish(h)
        return "ok"

    def remove_file(self, p):
        if self.is_file(p):
            del self.t[p]
            return "ok"
        if p in self.t:
            return "err"
        return self.missing_class(p)

    def remove_dir(self, p):
        if self.is_dir(p):
            if self.children(p):
                return "err"
            del self.t[p]
            return "ok"
        if p in self.t:
            return "err"
        return self.missing_class(p)

    def remove_dir_all(self, p):
        if p not in self.t:
            return "ok"
        if self.is_file(p):
            return "err"
        for q in self.descendants(p) + [p]:
            del self.t[q]
        return "ok"

    def copy_file(self, s, d, move=False):
        if d in self.t or not self.is_file(s) or not self.parent_ok(d):
            return "err"
        self.t[d] = self.t[s]
        if move:
            del self.t[s]
        return "ok"

    def copy_dir(self, s, d, move=False):
        if d in self.t or not self.is_dir(s) or not self.parent_ok(d) or d[:len(s)] == s:
            return ("err", None)
        desc = self.descendants(s)
        self.t[d] = "d"
        for q in desc:
            self.t[d + q[len(s):]] = self.t[q]
        if move:
            for q in desc + [s]:
                del self.t[q]
        return ("ok", len(desc))


def outcome_matches(expected, line):
    """does the implementation's outcome line fall into the expected class?"""
    if line is None:
        return False
    if line.startswith("panic"):
        return False
    if expected == "ok":
        return line.startswith("ok")
    if not line.startswith("err"):
        return False
    kind = line.split(":")[1]
    if expected == "err":
        return True
    return kind == expected


def check_case(c, target, ilines, first_snap):
    """replay the case's operations on the target against the contracts; yields (step, note) for every
    deviation of the implementation.  first_snap: step index of the snapshot that defines the initial tree."""
    t0 = tree_of_snapshot(ilines.get(("r", c.name, first_snap)))
    if t0 is None:
        return
    sp = Spec(t0)
    resync = False
    for step in range(first_snap + 1, c.nops):
        toks = c.ops[step].split(" ")
        op = toks[0]
        line = ilines.get(("r", c.name, step))
        exp = None
        note = None
        if op in ("hread", "hreadn", "hreadtoend"):
            r = int(toks[1])
            n = int(toks[2]) if op != "hreadtoend" else 1 << 62
            want = sp.hread(r, n, op != "hread")
            if want is None:
                continue
            if line and line.startswith("ok:bytes:"):
                got = vfx.unhex(line[len("ok:bytes:"):])
                good = (got == want) if op != "hread" else (want.startswith(got) and (len(got) > 0 or len(want) == 0 or n == 0))
                if not good:
                    yield step, "read handle delivered %r, the file holds %r at the cursor" % (got[:20], want[:20])
                    return
                sp.hread_done(r, len(got))
            else:
                yield step, "read on an open handle failed: " + (line or "")[:80]
                return
            continue
        if op in ("hwrite", "hseek", "hflush", "hdrop"):
            r = int(toks[1])
            if r not in sp.handles:
                continue
            if op == "hwrite":
                exp = sp.hwrite(r, vfx.unhex(toks[2]))
            elif op == "hseek":
                exp = sp.hseek(r, toks[2], int(toks[3]))
            elif op == "hflush":
                exp = sp.hflush(r)
            else:
                exp = sp.hdrop(r)
        elif op == "snap" and int(toks[1]) == target:
            got = tree_of_snapshot(line)
            if resync and got is not None:
                # a composite operation failed half-way: the contracts do not say what is left behind
                sp.t = dict(got)
                resync = False
                continue
            if got is None:
                yield step, "the snapshot of the filesystem contains errors: " + (line or "")[:160]
                return
            if not snapshot_lens_ok(line):
                yield step, "metadata length differs from the number of bytes read"
                return
            if got != sp.t:
                extra = sorted(set(got) - set(sp.t))
                missing = sorted(set(sp.t) - set(got))
                diff = sorted(p for p in set(got) & set(sp.t) if got[p] != sp.t[p])
                yield step, "tree differs from the contract: unexpected %r, missing %r, different %r" % (
                    ["/" + "/".join(p) for p in extra][:4], ["/" + "/".join(p) for p in missing][:4],
                    ["/" + "/".join(p) for p in diff][:4])
                return
            continue
        elif len(toks) >= 2 and ":" in toks[1]:
            k, p = resolve_spec(toks[1])
            if k != target:
                continue
            if p is None:
                exp = "InvalidPath"
            elif op == "createdir":
                exp = sp.create_dir(p)
            elif op == "createdirall":
                exp = sp.create_dir_all(p)
            elif op == "createfile":
                exp = sp.create_file(step, p)
            elif op == "appendfile":
                exp = sp.append_file(step, p)
            elif op == "openfile":
                exp = sp.open_file(step, p)
            elif op == "removefile":
                exp = sp.remove_file(p)
            elif op == "removedir":
                exp = sp.remove_dir(p) if p != () else None
            elif op == "removedirall":
                exp = sp.remove_dir_all(p) if p != () else None
            elif op in ("copyfile", "movefile", "copydir", "movedir"):
                k2, d = resolve_spec(toks[2])
                if k2 != target or d is None:
                    continue
                dest_exists = d in sp.t
                # left unspecified by C01: a transfer whose source has the wrong type, or into the source's own
                # subtree (the source itself included): any outcome is accepted, the tree is taken from the next snapshot
                if (op in ("copyfile", "movefile") and sp.is_dir(p)) or (op in ("copydir", "movedir") and sp.is_file(p)) \
                        or d[:len(p)] == p:
                    resync = True
                    continue
                if op in ("copyfile", "movefile"):
                    exp = sp.copy_file(p, d, move=(op == "movefile"))
                else:
                    exp, n = sp.copy_dir(p, d, move=(op == "movedir"))
                if exp == "err" and not dest_exists:
                    resync = True      # only "existing destination" is promised to be free of side effects
                    if exp == "ok" and op == "copydir" and line and line.startswith("ok") and line != "ok:n:%d" % n:
                        note = "copy_dir returned %s, the contract says %d entries" % (line, n)
            elif op == "exists":
                exp = "ok"
                if line in ("ok:bool:0", "ok:bool:1") and (line == "ok:bool:1") != (p in sp.t):
                    note = "exists says %s but the entry is %s" % (line, "present" if p in sp.t else "absent")
            elif op in ("isfile", "isdir"):
                exp = "ok"
                want = sp.is_file(p) if op == "isfile" else sp.is_dir(p)
                if line in ("ok:bool:0", "ok:bool:1") and (line == "ok:bool:1") != want:
                    note = "%s says %s" % (op, line)
            elif op == "metadata":
                exp = "ok" if p in sp.t else sp.missing_class(p)
                if line and line.startswith("ok:meta:"):
                    f = line.split(":")
                    if p in sp.t:
                        wt = "dir" if sp.is_dir(p) else "file"
                        wl = 0 if sp.is_dir(p) else len(sp.t[p])
                        if f[2] != wt or int(f[3]) != wl:
                            note = "metadata reports %s/%s, the tree holds %s/%d" % (f[2], f[3], wt, wl)
            elif op == "readdir":
                exp = "ok" if sp.is_dir(p) else ("err" if p in sp.t else sp.missing_class(p))
                if exp == "ok" and line and line.startswith("ok:paths:"):
                    got = sorted(x for x in line[len("ok:paths:"):].split(",") if x and x != "-")
                    want = sorted(vfx.hexs("".join("/" + x for x in q)) for q in sp.children(p))
                    if got != want:
                        note = "read_dir lists %r, the tree holds %r" % (got[:5], want[:5])
            elif op == "readtostring":
                if sp.is_file(p):
                    try:
                        sp.t[p].decode("utf-8")
                        exp = "ok"
                        if line and line.startswith("ok:bytes:") and vfx.unhex(line[len("ok:bytes:"):]) != sp.t[p]:
                            note = "read_to_string returned other bytes than the file holds"
                    except UnicodeDecodeError:
                        exp = "err"
                else:
                    exp = "err" if p in sp.t else sp.missing_class(p)
            elif op == "walkdir":
                exp = "ok" if sp.is_dir(p) else ("err" if p in sp.t else sp.missing_class(p))
                if exp == "ok" and line and line.startswith("ok:items:"):
                    items = [x for x in line[len("ok:items:"):].split(",") if x]
                    if all(x.startswith("o") for x in items):
                        got = sorted(x[1:] for x in items)
                        want = sorted(vfx.hexs("".join("/" + x for x in q)) for q in sp.descendants(p))
                        if got != want:
                            note = "walk_dir yields %d items, the subtree has %d entries" % (len(got), len(want))
            elif op in ("setctime", "setmtime", "setatime"):
                exp = None if p in sp.t else sp.missing_class(p)
            else:
                continue
        else:
            continue
        if exp is not None and not outcome_matches(exp, line):
            yield step, "contract says %s for `%s`, the implementation answered %s" % (exp, c.ops[step][:60], (line or "")[:80])
            return
        if note:
            yield step, note
            return
