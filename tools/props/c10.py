"""C10 - overlay deletions persist, re-creation starts fresh, bookkeeping is hidden."""
import vfx
from props import hist, histprop, c03, spec

CONFIGS = ["ovl_mm", "ovl_mmm", "ovl_4", "ovl_pp", "ovl_mp", "ovl_sub", "ovl_alt", "ovl_ovl", "alt_ovl"]
MIX = (["removefile"] * 4 + ["removedir"] * 3 + ["removedirall"] * 3 + ["createfile"] * 4 + ["createdir"] * 3 + ["append"] * 2
       + ["createdirall", "copyfile", "movefile", "readdir", "walkdir", "exists", "metadata", "probe", "readtostring", "movedir"])


def finish(c, g):
    # the markers must never show up: list and walk the root, probe the reserved name's parent listing
    t = g.target
    c.root_list = c.op("readdir", "%d:" % t)
    c.root_walk = c.op("walkdir", "%d:" % t)


def oracle(cases, mlines, ilines):
    out = []
    for c in cases:
        for step in (getattr(c, "root_list", None), getattr(c, "root_walk", None)):
            if step is None:
                continue
            line = ilines.get(("r", c.name, step)) or ""
            if vfx.hexs(".whiteout") in line or vfx.hexs("_wo") + "," in line + ",":
                out.append({"case": c.name, "case_text": c.text(), "step": step, "op": c.ops[step], "kind": "r",
                            "model": mlines.get(("r", c.name, step)), "impl": line, "violates": True,
                            "note": "a deletion marker shows up in the overlay's own namespace", "cfg": c.cfg.kind})
    return out


P = histprop.HistProp(
    "C10", CONFIGS, typed=True, mix=MIX, corpus_cases=lambda: hist.deleted_target_cases("c10") + hist.wo_names_cases("c10") + hist.twin_overlay_cases("c10"), quick_cases=12, thorough_cases=150, nops=(14, 28), known=c03.known, use_spec=True,
    prepop_density=0.85, oracle=oracle, finish=finish, allow_big=False,
    rule=("removal-heavy typed histories through overlays of 2-3 layers with densely pre-populated lower layers: remove_file, "
          "remove_dir of emptied directories, remove_dir_all of nested subtrees, followed by unrelated operations and by "
          "repeated re-creations of the same paths with changing type; after every call the whole tree is compared with the "
          "abstract contracts (a removed entry and everything inside it must stay absent until re-created, a re-created file "
          "holds only the new bytes, a re-created directory is empty) by the model-independent oracle, the root is listed "
          "and walked for deletion markers; everything is also compared with the model"),
    assumptions=["the reserved names '.whiteout' and '*_wo' are not used as entry names (the property's exclusion)"])
generate, corpus, run_and_compare, known = P.generate, P.corpus, P.run_and_compare, P.known
RULE, ASSUMPTIONS, BUILDS = P.RULE, P.ASSUMPTIONS, P.BUILDS
