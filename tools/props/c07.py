"""C07 - AltrootFS is an exact and confined re-rooting."""
import vfx
from props import hist, histprop

CONFIGS = ["alt_mem", "alt_phys", "alt_alt", "alt_root", "alt_ovl"]
HOSTILE_ARGS = ["..", "../..", "../../x", "/..", "/../..", "a/../../..", "./../x", "../r", "../../r/s", "/", ".", "..//..", "a/../../../etc"]


def after_prepop(c, g, tree):
    # something outside the altroot directory that must never change
    if g.alt_under and g.alt_under[1]:
        u = g.alt_under[0]
        hist.write_file(c, u, "outside.txt", b"do not touch")
        c.op("createdirall", vfx.ps(u, "zz/inner"))
    c.first_watch = {}
    for w in g.watch:
        c.first_watch[w] = c.op("snap", w)


def finish(c, g):
    # hostile expressions through the altroot: probe, create, remove
    t = g.target
    import random
    rng = random.Random(len(c.lines))
    for _ in range(6):
        a = rng.choice(HOSTILE_ARGS)
        k = rng.choice(["exists", "createdir", "removedirall", "metadata", "readdir", "createfile", "removefile", "asstr"])
        if k == "createfile":
            i = c.op("createfile", vfx.ps(t, a))
            c.op("hdrop", i)
        elif k == "removedirall" and a in ("..", "../..", "/..", "/../..", "/", ".", "..//..", "a/../../.."):
            continue   # resolves to the altroot root itself: root removal is outside the property
        else:
            c.op(k, vfx.ps(t, a))
        c.op("snap", t)


def project(kind, case, step, op, line):
    if line is None:
        return None
    if kind == "l":
        return line
    return histprop.contract_view(line)


def under(path_hex, root):
    p = vfx.unhex(path_hex).decode("utf-8", "replace")
    return root == "" or p == root or p.startswith(root + "/")


def oracle(cases, mlines, ilines):
    """independent of the model: every call that reaches the underlying instance while the altroot is
    used stays below P, except the existence/type probe of P's parent"""
    out = []
    for c in cases:
        g = c.cfg
        if not g.alt_under:
            continue
        u, P = g.alt_under
        parent = P.rsplit("/", 1)[0] if P else None
        for step, op in enumerate(c.ops):
            toks = op.split(" ")
            if len(toks) < 2 or not toks[1].startswith("%d:" % g.target):
                continue
            line = ilines.get(("l", c.name, step))
            if not line:
                continue
            for item in line.split(" "):
                f = item.split(":")
                if int(f[0]) != u:
                    continue
                for ph in f[2:]:
                    if under(ph, P):
                        continue
                    q = vfx.unhex(ph).decode("utf-8", "replace")
                    if q == parent and f[1] in ("exists", "metadata"):
                        continue
                    out.append({"case": c.name, "case_text": c.text(), "step": step, "op": op, "kind": "l",
                                "model": mlines.get(("l", c.name, step)), "impl": line, "violates": True,
                                "note": "call %s on the underlying filesystem names %r outside the altroot directory %r" % (f[1], q, P)})
                    break
        # nothing outside P changed: compare the first and the last snapshot of the underlying instance
        if P and u in getattr(c, "first_watch", {}):
            a = ilines.get(("r", c.name, c.first_watch[u]))
            last = [s for s, o in enumerate(c.ops) if o == "snap %d" % u][-1]
            b = ilines.get(("r", c.name, last))
            ea = [e for e in (histprop.snap_entries(hist.strip_times(a)) or []) if not under(e[0], P) and e[0] != "-"]
            eb = [e for e in (histprop.snap_entries(hist.strip_times(b)) or []) if not under(e[0], P) and e[0] != "-"]
            # ancestors of P may be re-timed by changes below them; their type and the entries outside must stay
            if ea != eb:
                out.append({"case": c.name, "case_text": c.text(), "step": last, "op": "snap", "kind": "r",
                            "model": a, "impl": b, "violates": True,
                            "note": "entries outside the altroot directory changed"})
    return out


def corpus_cases():
    """every operation (the three time setters included) on every kind of target, through every kind of altroot"""
    # the altroot's own root is an ordinary directory P of the underlying filesystem: removing it through the altroot is
    # removing P there (root_removal=True; only meaningful for an altroot, whose root is not the filesystem's root)
    cases = hist.matrix_cases("c07", ["alt_mem", "alt_phys", "alt_alt", "alt_ovl"], root_removal=True) + \
        hist.dotted_name_cases("c07", ["alt_mem", "alt_phys", "alt_alt", "alt_ovl", "alt_root"]) + \
        hist.neighbour_name_cases("c07", ["alt_mem", "alt_phys", "alt_alt", "alt_root"]) + \
        hist.open_handle_cases("c07", ["alt_mem", "alt_phys", "alt_alt", "alt_root"]) + \
        hist.odd_join_cases("c07", ["alt_mem", "alt_phys", "alt_alt", "alt_ovl"])
    for c in cases:
        c.first_watch = {}
    return cases


P = histprop.HistProp(
    "C07", CONFIGS, typed=False, corpus_cases=corpus_cases, project=project, want_logs=True, quick_cases=10, thorough_cases=120, nops=(8, 16),
    oracle=oracle, after_prepop=after_prepop, finish=finish, hostile=0.45, allow_big=False,
    rule=("untyped histories on an altroot rooted at depth 0..3 of a memory, physical or overlay filesystem and on an altroot "
          "of an altroot, 45% of the path arguments spelled with './', leading '/', 'x/../' or '..' prefixes plus explicit "
          "hostile expressions ('../../x', '/../..', ...); compared: outcome and value of every call, snapshot of the altroot "
          "and of the underlying filesystem, and the exact sequence of calls that reach the underlying instance; "
          "oracle on the implementation alone: every such call stays below P and nothing outside P changes"),
    assumptions=["symlinks are outside the property and are not created"])
generate, corpus, run_and_compare, known = P.generate, P.corpus, P.run_and_compare, P.known
RULE, ASSUMPTIONS, BUILDS = P.RULE, P.ASSUMPTIONS, P.BUILDS
