"""C05 - existence, metadata, listings and traversal agree with each other."""
import vfx
from props import hist, histprop, universe, c03

CONFIGS = hist.CONFIGS
NAMESETS = [["a", "ab", "a.b"], ["a", "a b", "A"], ["x.", ".x", "x"], ["é", "日", "e"], ["b", "ab", "abc"]]


def finish(c, g):
    t = g.target
    c.probe_steps = universe.add_probes(c, t, c.names, depth=2)
    c.walk_step = c.op("walkdir", "%d:" % t)
    c.snap_step = c.op("tree", t)


def hexp(p):
    return vfx.hexs("".join("/" + x for x in p))


def oracle(cases, mlines, ilines):
    out = []
    for c in cases:
        ps = getattr(c, "probe_steps", None)
        if not ps:
            continue
        pr = {p: universe.parse_probe(ilines.get(("r", c.name, s))) for p, s in ps.items()}

        def bad(step, note, p=None):
            out.append({"case": c.name, "case_text": c.text(), "step": step, "op": c.ops[step], "kind": "r",
                        "model": mlines.get(("r", c.name, step)), "impl": ilines.get(("r", c.name, step)),
                        "violates": True, "note": note, "orphan": p, "cfg": c.cfg.kind})
        for p, r in pr.items():
            if r is None:
                continue
            ex = r["exists"] == "ok:bool:1"
            isd = r["isdir"] == "ok:bool:1"
            isf = r["isfile"] == "ok:bool:1"
            lists = r["list"].startswith("ok:paths:")
            reads = r["read"].startswith("ok:bytes:")
            if isd != lists:
                bad(ps[p], "is_dir=%s but read_dir %s" % (isd, "succeeds" if lists else "fails"))
            if isf != reads:
                bad(ps[p], "is_file=%s but open+read %s" % (isf, "succeeds" if reads else "fails"))
            if ex != (r["meta"].startswith("ok:meta:")):
                bad(ps[p], "exists=%s but metadata %s" % (ex, r["meta"][:20]))
            if ex and not (isd or isf):
                bad(ps[p], "exists but is neither file nor directory")
            if lists:
                items = [x for x in r["list"][len("ok:paths:"):].split(",") if x]
                items = [] if items == ["-"] else items
                if len(set(items)) != len(items):
                    bad(ps[p], "a name is listed twice")
                pre = vfx.unhex(hexp(p)) if p else b""
                for it in items:
                    b = vfx.unhex(it)
                    if not b.startswith(pre + b"/") or b"/" in b[len(pre) + 1:]:
                        bad(ps[p], "listed entry %r is not a bare child" % b)
                # every universe child: listed iff it exists
                for n in c.names:
                    q = p + (n,)
                    if q in pr and pr[q] is not None:
                        qex = pr[q]["exists"] == "ok:bool:1"
                        if qex != (hexp(q) in items):
                            bad(ps[q], "exists=%s but the parent's listing %s it" % (qex, "contains" if hexp(q) in items else "lacks"), q)
            if p and ex and p[:-1] in pr and pr[p[:-1]] is not None and not pr[p[:-1]]["list"].startswith("ok:paths:"):
                bad(ps[p], "orphan: exists but the parent cannot be listed", p)
        # walk_dir yields every descendant exactly once, directories before their contents
        w = ilines.get(("r", c.name, c.walk_step))
        tr = histprop.snap_entries(ilines.get(("r", c.name, c.snap_step)))
        if w and w.startswith("ok:items:") and tr:
            items = [x for x in w[len("ok:items:"):].split(",") if x]
            oks = [x[1:] for x in items if x.startswith("o")]
            errs = [x for x in items if not x.startswith("o")]
            want = sorted(e[0] for e in tr if e[0] != "-" and e[1].startswith("ok:meta"))
            if not errs:
                if sorted(oks) != want:
                    bad(c.walk_step, "walk_dir items differ from the set of descendants")
                seen = set()
                for it in oks:
                    b = vfx.unhex(it)
                    par = b.rsplit(b"/", 1)[0]
                    if par and par.hex() not in seen:
                        bad(c.walk_step, "walk_dir yields %r before its directory" % b)
                        break
                    seen.add(it)
    return out


class P5(histprop.HistProp):
    def generate(self, rng, tier):
        n = self.quick_cases if tier == "quick" else self.thorough_cases
        cases = []
        for kind in self.configs:
            for i in range(n):
                c = vfx.Case("c05_%s_%d" % (kind, i))
                g = hist.build_config(c, kind, rng)
                c.cfg = g
                c.names = list(rng.choice(NAMESETS))
                hist.gen_history(c, g, rng, rng.randint(*self.nops), typed=True, names=c.names, allow_big=False,
                                 prepop_density=0.6)
                finish(c, g)
                cases.append(c)
        return cases


def stale_cases():
    """handles that outlive their file (and its directory): afterwards the observers must still tell one story"""
    out = []
    for c in hist.stale_handle_cases("c05", ["mem", "alt_mem", "ovl_mm"]):
        c.names = ["a", "x", "c"]
        finish(c, c.cfg)
        out.append(c)
    return out


def corpus_cases():
    """every observer (and every other call) on every kind of target: a file, an empty / non-empty directory, missing
    names, below a file, the root"""
    return hist.matrix_cases("c05", ["mem", "phys", "alt_mem", "alt_phys", "ovl_mm", "ovl_pp", "ovl_sub"], two_path=False) + \
        [c for c in hist.matrix_cases("c05t", ["mem", "alt_mem", "ovl_mm"]) if "_movefile_" in c.name or "_copyfile_" in c.name
         or "_movedir_" in c.name or "_copydir_" in c.name] + hist.wo_names_cases("c05") + \
        hist.size_cases("c05", ["mem", "phys", "alt_mem", "ovl_mm", "ovl_sub"]) + \
        hist.neighbour_name_cases("c05", ["mem", "phys", "alt_mem", "alt_alt", "ovl_mm", "ovl_m"]) + stale_cases() + \
        hist.deep_tree_cases("c05", ["mem", "phys", "alt_mem", "ovl_mm", "ovl_sub"])


P = P5("C05", CONFIGS, corpus_cases=corpus_cases, quick_cases=8, thorough_cases=100, nops=(8, 18), oracle=oracle, known=c03.known,
       rule=("histories on all 15 configurations over name sets with names that are prefixes of each other ('a','ab','a.b'), "
             "dotted and multi-byte names; afterwards every universe path of depth <= 2 (absent ones included) is probed "
             "with exists, metadata, is_file, is_dir, read_dir and open+read, the root is walked and a stat-only tree taken; "
             "oracle on the implementation alone: the observers tell one story (exists iff listed by the parent exactly "
             "once, directory iff listable, file iff readable, listed names are bare children, walk_dir = all descendants "
             "exactly once with every directory before its contents); everything is also compared with the model"),
       assumptions=[])
generate, corpus, known = P.generate, P.corpus, P.known
ASSUMPTIONS = P.ASSUMPTIONS
BUILDS = [False, True]     # the EmbeddedFS pass runs the debug and the release harness: both are rebuilt on every run
RULE = P.RULE + ("; EmbeddedFS: every observer on every path of the embedded fixture's universe (files, implied directories sharing "
                 "ancestors at depth 2-4, absent siblings), listings and walks, against the model and against a PhysicalFS on the same folder")


def run_and_compare(cases, tier):
    """the observers of an EmbeddedFS tell one story too (it builds its directory index itself)"""
    import random
    from props import c18
    res = P.run_and_compare(cases, tier)
    er = c18.run_and_compare(c18.gen_cases(random.Random(5), "quick"), "quick")
    for d in er["disagreements"]:
        d["note"] = "EmbeddedFS: " + str(d.get("note", ""))
    res["disagreements"] += er["disagreements"]
    res["stats"].setdefault("distribution", {})["embedded_observations"] = er["stats"].get("evaluations", 0)
    return res
