"""C20 - underlying failures are never reported as success."""
import vfx
from props import hist, histprop, spec, c08

CONFIGS = ["mem", "alt_mem", "alt_phys", "ovl_mm", "ovl_mmm", "ovl_4", "ovl_pp", "ovl_sub", "alt_ovl", "ovl_alt", "ovl_ovl", "phys"]
OPS = ["createdir", "createdirall", "createfile", "append", "removefile", "removedir", "removedirall", "copyfile", "movefile",
       "copydir", "movedir", "readdir", "metadata", "exists", "readtostring", "walkdir", "isfile", "isdir"]


def gen_cases(rng, tier):
    """a fault-free prefix, then ONE operation during which the k-th call through one wrapper fails"""
    n = 14 if tier == "quick" else 160
    cases = []
    for kind in CONFIGS:
        for i in range(n):
            c = vfx.Case("c20_%s_%d" % (kind, i))
            g = hist.build_config(c, kind, rng)
            c.cfg = g
            names = rng.sample(hist.NAMES, 3)
            hist.gen_history(c, g, rng, rng.randint(4, 10), typed=True, names=names, allow_big=False,
                             prepop_density=0.7)
            # the faulted operation: every instance of the stack may be the one that fails
            insts = sorted(set([g.target] + g.watch))
            fid = rng.choice(insts)
            k = rng.choice([0, 0, 1, 1, 2, 3, 4, 5, 7, 10, 14])
            c.fault_step = c.op("setfault", fid, k)
            c.fault = (fid, k)
            before = c.nops
            hist.gen_history(c, g, rng, 1, typed=True, names=names, allow_big=False, mix=[rng.choice(OPS)],
                             prepop_density=0.0, snap_every=False, reuse_tree=getattr(c, "tree", None))
            c.faulted_ops = list(range(before, c.nops))
            c.op("clearlog")
            c.after_snap = c.op("snap", g.target)
            for w in g.watch:
                c.op("tree", w)
            cases.append(c)
    return cases


DIRECTED = [("walkdir", "d", None), ("walkdir", "", None), ("copydir", "d", "zz"), ("movedir", "d", "zz"), ("removedirall", "d", None),
            ("copyfile", "g", "zz"), ("movefile", "d/f", "m/zz"), ("readdir", "d", None), ("readdir", "", None),
            ("createdirall", "m/p/q", None), ("readtostring", "d/e/h", None), ("removedir", "m", None), ("removefile", "g", None),
            ("createdir", "d/e/n", None), ("createfile", "d/e/n", None), ("append", "d/f", None)]


def corpus_cases():
    """the enumeration proper: on one populated tree, every composite (and the primitives that an overlay turns into
    several calls), with the k-th call through EACH instance of the stack failing, for every k up to 11"""
    import random
    rng = random.Random(3)
    cases = []
    for kind in CONFIGS:
        probe = vfx.Case("probe")
        gp = hist.build_config(probe, kind, rng)
        ninst = len(sorted(set([gp.target] + gp.watch)))
        for opk, src, dst in DIRECTED:
            for which in range(ninst):
                for k in range(12):
                    c = vfx.Case("c20_dir_%s_%s_%s_%d_%d" % (kind, opk, (src or "root").replace("/", "-"), which, k))
                    g = hist.build_config(c, kind, rng)
                    c.cfg = g
                    t = g.target
                    hist._matrix_setup(c, t)
                    c.first_snap = c.nops - 1
                    insts = sorted(set([t] + g.watch))
                    fid = insts[which]
                    c.fault_step = c.op("setfault", fid, k)
                    c.fault = (fid, k)
                    before = c.nops
                    if opk in ("createfile", "append"):
                        h = c.op("createfile" if opk == "createfile" else "appendfile", hist._ps(t, src))
                        c.op("hwrite", h, vfx.hexs(b"NEW")); c.op("hdrop", h)
                    elif dst is not None:
                        c.op(opk, hist._ps(t, src), hist._ps(t, dst))
                    else:
                        c.op(opk, hist._ps(t, src))
                    c.faulted_ops = list(range(before, c.nops))
                    c.op("clearlog")
                    c.after_snap = c.op("snap", t)
                    for w in g.watch:
                        c.op("tree", w)
                    cases.append(c)
    return cases + io_fault_cases() + long_fault_cases()


def long_fault_cases():
    """the same enumeration on paths of ~300 bytes made of multi-byte names, with names of 1, 2 and 3 bytes at the end so that
    every byte offset counted from either end falls inside a character for one of them: whatever is done with the path of
    a failing call (messages, labels), the failure is returned, not a panic"""
    import random
    rng = random.Random(61)
    cases = []
    deep = "/".join(["日本語"] * 28)
    for kind in ("mem", "alt_mem", "ovl_mm", "ovl_sub"):
        probe = vfx.Case("probe")
        gp = hist.build_config(probe, kind, rng)
        ninst = len(sorted(set([gp.target] + gp.watch)))
        for opk in ("copyfile", "movefile", "copydir", "movedir", "append"):
            for tail in (1, 2, 3):
                for which in range(ninst):
                    for k in range(5):
                        c = vfx.Case("c20_long_%s_%s_%d_%d_%d" % (kind, opk, tail, which, k))
                        g = hist.build_config(c, kind, rng)
                        c.cfg = g
                        t = g.target
                        if opk == "append" and g.prepop:
                            lo, sub = g.prepop[0]
                            base = sub[1:] + "/" if sub else ""
                            c.op("createdirall", vfx.ps(lo, base + deep + "/" + "s" * tail))
                            hist.write_file(c, lo, base + deep + "/" + "s" * tail + "/" + "f" * tail, b"lower bytes")
                            c.op("createdirall", vfx.ps(t, deep))
                        else:
                            c.op("createdirall", vfx.ps(t, deep + "/" + "s" * tail))
                            hist.write_file(c, t, deep + "/" + "s" * tail + "/" + "f" * tail, b"some bytes")
                        c.op("snap", t)
                        c.first_snap = c.nops - 1
                        insts = sorted(set([t] + g.watch))
                        fid = insts[which]
                        c.fault_step = c.op("setfault", fid, k)
                        c.fault = (fid, k)
                        before = c.nops
                        src_dir = deep + "/" + "s" * tail
                        src_file = src_dir + "/" + "f" * tail
                        if opk == "append":
                            h = c.op("appendfile", hist._ps(t, src_file)); c.op("hwrite", h, vfx.hexs(b"NEW")); c.op("hdrop", h)
                        elif opk in ("copyfile", "movefile"):
                            c.op(opk, hist._ps(t, src_file), hist._ps(t, deep + "/" + "D" * tail))
                        else:
                            c.op(opk, hist._ps(t, src_dir), hist._ps(t, deep + "/" + "D" * tail))
                        c.faulted_ops = list(range(before, c.nops))
                        c.op("clearlog")
                        c.after_snap = c.op("snap", t)
                        for w in g.watch:
                            c.op("tree", w)
                        cases.append(c)
    return cases


IO_DIRECTED = [("copyfile", "g", "zz"), ("movefile", "d/f", "m/zz"), ("copydir", "d", "zz"), ("movedir", "d", "zz"),
               ("readtostring", "d/e/h", None), ("append", "low", None), ("append", "d/f", None), ("createfile", "d/e/n", None),
               ("copyfile", "empty", "zz"), ("walkdir", "", None), ("removedirall", "d", None)]


def io_fault_cases():
    """failing handle I/O: from the arming on every read, or every write and flush, or all of them, on any handle fail.  The composites that stream
    bytes (copy_file / move_file between or within instances without a native copy, copy_dir, move_dir, read_to_string,
    the overlay's copy-up before an append) must report an error; the ones that move no bytes are unaffected"""
    import random
    rng = random.Random(23)
    cases = []
    for kind in CONFIGS:
      for mode in ("r", "w", "rw"):
        for opk, src, dst in IO_DIRECTED:
            c = vfx.Case("c20_io%s_%s_%s_%s" % (mode, kind, opk, (src or "root").replace("/", "-")))
            g = hist.build_config(c, kind, rng)
            c.cfg = g
            t = g.target
            hist._matrix_setup(c, t)
            hist.write_file(c, t, "empty", b"")
            if g.prepop:
                lo, sub = g.prepop[0]
                hist.write_file(c, lo, (sub[1:] + "/" if sub else "") + "low", b"lower bytes")
            else:
                hist.write_file(c, t, "low", b"lower bytes")
            c.op("snap", t)
            c.first_snap = c.nops - 1
            c.fault_step = c.op("setiofault", mode)
            c.fault = (-1, 0)
            before = c.nops
            if opk in ("createfile", "append"):
                h = c.op("createfile" if opk == "createfile" else "appendfile", hist._ps(t, src))
                c.op("hwrite", h, vfx.hexs(b"NEW")); c.op("hflush", h); c.op("hdrop", h)
            elif dst is not None:
                c.op(opk, hist._ps(t, src), hist._ps(t, dst))
            else:
                c.op(opk, hist._ps(t, src))
            c.faulted_ops = list(range(before, c.nops))
            c.op("clearlog")
            c.after_snap = c.op("snap", t)
            for w in g.watch:
                c.op("tree", w)
            cases.append(c)
    return cases


def project(kind, case, step, op, line):
    if line is None:
        return None
    if kind == "l":
        return line
    return histprop.contract_view(line)


def oracle(cases, mlines, ilines):
    """on the implementation alone: never a panic; a faulted operation that reports success has the
    effect the contract prescribes for success; observers that answer Ok answer truthfully"""
    out = []
    for c in cases:
        g = c.cfg
        fs = getattr(c, "first_snap", None)
        if fs is None:
            continue
        for step in c.faulted_ops:
            line = ilines.get(("r", c.name, step))
            if line and line.startswith("panic"):
                out.append(mk(c, step, mlines, ilines, "panic while a call into an underlying filesystem failed"))
        # replay the contracts over the whole case; an Err of the faulted operation is always acceptable,
        # so the oracle resynchronises after it (spec.check_case does that for composite failures; for the
        # faulted step we cut the case at the fault when the implementation reported an error)
        errs = [s for s in c.faulted_ops if (ilines.get(("r", c.name, s)) or "").startswith("err")]
        if errs:
            continue
        for step, note in spec.check_case(c, g.target, ilines, fs):
            if step >= c.fault_step:
                out.append(mk(c, step, mlines, ilines,
                              "a call into an underlying filesystem failed (%s) but the operation "
                              "reported success with a wrong or partial effect: %s" % (
                                  "every read/write/flush on a handle" if c.fault[0] < 0 else "wrapper %d, call #%d" % c.fault, note)))
                break
    return out + c08.oracle([c for c in cases if c.cfg.upper], mlines, ilines)


def mk(c, step, mlines, ilines, note):
    return {"case": c.name, "case_text": c.text(), "step": step, "op": c.ops[step], "kind": "r",
            "model": mlines.get(("r", c.name, step)), "impl": ilines.get(("r", c.name, step)), "violates": True,
            "note": note, "cfg": c.cfg.kind}


def known(d):
    return c08.known(d)


P = histprop.HistProp(
    "C20", [], project=project, want_logs=True, extra_gen=gen_cases, oracle=oracle, known=known, corpus_cases=corpus_cases,
    rule=("DIRECTED: on one populated tree every composite operation (walk_dir, copy_dir, move_dir, remove_dir_all, copy_file, "
          "move_file, create_dir_all, read_to_string, read_dir) and the primitives an overlay turns into several calls, with "
          "the k-th call through EACH instance of the stack failing, for every k in 0..11, on 11 stackings; the byte-streaming "
          "composites (copy_file, move_file, copy_dir, move_dir, read_to_string, the overlay's copy-up) with every read, every "
          "write and flush, or all of them failing on every handle; RANDOM: "
          "a fault-free typed history, then one operation (primitive, composite or observer) during which the k-th call "
          "(k in {0,1,2,3,4,5,7,10,14}; all k <= 16 in the thorough tier) that passes through the recording wrapper of one "
          "instance of the stack (the target, the underlying filesystem of an altroot, the upper or a lower layer of an "
          "overlay) returns an I/O error; compared with the model's faulted run: outcome, snapshot afterwards and the "
          "exact call sequence; oracle on the implementation alone: no panic, an operation that still reports success has "
          "the full effect its contract prescribes, an observer that answers Ok answers truthfully, no mutating call "
          "reaches a lower overlay layer"),
    assumptions=["faults are injected at trait-call granularity by a public-trait wrapper (HarnessFS)"])
generate, corpus = P.generate, P.corpus
ASSUMPTIONS, BUILDS = P.ASSUMPTIONS, P.BUILDS
RULE = P.RULE + ("; the ASYNC port: the walks and whole-tree composites of the directed enumeration (walk_dir, copy_dir, move_dir, "
                 "remove_dir_all; every instance x every k) on memory, altroot and overlay stacks through the async API, the stream "
                 "drained to its end after an error item: no panic, and outcome and items as in the async model")


def async_faults():
    from props import c15
    sub = [c for c in corpus_cases()
           if any(("c20_dir_%s_" % k) in c.name for k in ("mem", "alt_mem", "ovl_mm", "ovl_mmm"))
           and any(("_%s_" % o) in c.name for o in ("walkdir", "copydir", "movedir", "removedirall"))]
    _sync, asy, pend, amodel = c15.run_variants(sub, "c20a", seed=20)
    by = {c.name: c for c in sub}
    out, seen, n = [], set(), 0
    for k in sorted(set(asy) | set(pend) | set(amodel), key=lambda k: (k[1], k[2], k[0])):
        kind, cname, step = k
        if kind != "r" or cname in seen:
            continue
        c = by[cname]
        if step not in c.faulted_ops:
            continue
        n += 1
        a, p_, m = asy.get(k), pend.get(k), amodel.get(k)
        va, vp, vm = (histprop.contract_view(x) if x is not None else None for x in (a, p_, m))
        bad = None
        if (a or "").startswith("panic") or (p_ or "").startswith("panic"):
            bad = "panic in the async port while a call into an underlying filesystem failed"
        elif va != vm or vp != vm:
            bad = "async port under a fault: %s / with pending futures %s / async model %s" % ((va or "")[:80], (vp or "")[:80], (vm or "")[:80])
        if bad:
            seen.add(cname)
            out.append({"case": cname, "case_text": c.text(), "step": step, "op": c.ops[step] + "  [async]", "kind": "r", "model": m,
                        "impl": a, "violates": True, "note": bad, "cfg": c.cfg.kind})
    return out, n


def run_and_compare(cases, tier):
    res = P.run_and_compare(cases, tier)
    dis, n = async_faults()
    res["disagreements"] = res["disagreements"] + dis
    res["stats"].setdefault("distribution", {})["async_faulted_operations_compared"] = n
    return res
