#!/bin/bash
# own_cells.sh <out file> <seed ids...> : for each seeded change, apply it to /repo, run the check of its own property, undo.
# (mutates /repo's working tree while it runs: nothing else may use /repo or run checks meanwhile)
out="$1"; shift
for id in "$@"; do
  c=${id:0:3}
  git -C /repo status --short | grep -q . && { echo "/repo not clean" >> "$out"; exit 2; }
  git -C /repo apply /verif/seeded/$id/patch.diff || { echo "$id $c CANNOT-APPLY" >> "$out"; continue; }
  o=$(cd /verif && ./check $c 2>&1)
  v=$(echo "$o" | grep -m1 "^VIOLATION")
  if [ -n "$v" ]; then echo "$id $c DETECTED $v" >> "$out"; else echo "$id $c quiet" >> "$out"; fi
  git -C /repo checkout -- .
done
echo FINISHED >> "$out"
