#!/usr/bin/env python3
"""write /verif/seeded/<id>/meta.json from the table below and the detection matrix (seeded/matrix.txt)"""
import json, os
ROOT = os.path.dirname(os.path.dirname(os.path.abspath(__file__)))
SEED = {
 "C01": ("C01", "OverlayFS::remove_file returns early (no deletion marker) when the write layer holds a copy of the file", "a file present in a lower layer AND in the write layer (overwritten or appended through the overlay), then remove_file", ""),
 "C02": ("C02", "MemoryFS::remove_dir checks emptiness by a key-prefix scan and no longer rejects a path that is a file", "remove_dir on an existing regular file (PhysicalFS: ENOTDIR, MemoryFS now Ok and the file is gone)", ""),
 "C03": ("C03", "MemoryFS write handle publishes over whatever entry is at its path (type guard dropped)", "a write/append handle kept open while its path is removed and re-created as a directory with children, then flush/drop", ""),
 "C04": ("C04", "MemoryFS WritableFile::flush skips publishing when the buffer length is unchanged since the last flush", "seek back and overwrite in place (same length) between two flushes, or an append handle whose first write keeps the length", ""),
 "C05": ("C05", "OverlayFS::read_path no longer consults the deletion marker (only exists does)", "remove a lower-layer entry through the overlay, then metadata/open_file/read_dir on it", ""),
 "C06": ("C06", "join treats every component made only of dots ('...', '....') like '.'", "join with a component of three or more dots", ""),
 "C07": ("C07", "AltrootFS::exists answers true for the root without asking the underlying filesystem", "an altroot whose root directory does not exist (or was removed) in the underlying filesystem", ""),
 "C08": ("C08", "OverlayFS time setters copy the entry up first (and fall back to the lower layer's path for directories)", "set_*_time on a directory that exists only in a lower layer: the lower layer is modified", ""),
 "C09": ("C09", "OverlayFS::remove_dir checks emptiness on the first layer that has the directory instead of the merged listing", "upper layer holds the directory empty, a lower layer holds children: remove_dir succeeds", ""),
 "C10": ("C10", "OverlayFS::remove_file skips the deletion marker when the write layer holds a copy", "second removal cycle of a lower-layer file (remove, re-create, remove) or removal after copy-up", ""),
 "C11": ("C11", "copy_dir/move_dir compute the relative path with trim_start_matches(prefix) instead of slicing", "a source directory whose child path starts with a repetition of the directory's own name (/a/a..., /ab/ab/x)", ""),
 "C12": ("C12", "create_dir_all labels a failure with the failing segment instead of the failing ancestor path", "create_dir_all through a file at depth >= 2", ""),
 "C13": ("C13", "MemoryFS reader delegates to <&[u8] as Read> on content[position..]", "read (any buffer, zero-length included) after a seek strictly past the end", ""),
 "C14": ("C14", "MemoryFS reader computes SeekFrom::End relative to the remaining bytes instead of the length", "seek(End(k)) after the position has moved", ""),
 "C15": ("C15", "async WalkDirIterator clones the parked item and clears it only on the success path", "an entry removed between the listing and its metadata lookup while the metadata future was pending at least once", "async-vfs"),
 "C16": ("C16", "MemoryFS::create_dir checks the parent under a read lock released before the write lock is taken", "create_dir(/a/b) racing remove_dir(/a): both succeed, /a/b is an orphan", "verif-hooks (deterministic demo; a free-running demo needs none)"),
 "C17": ("C17", "create_dir_all returns early when the target is a directory and otherwise treats DirectoryExists on the last segment as an error", "two threads create_dir_all the same path concurrently", ""),
 "C18": ("C18", "EmbeddedFS::new stops registering ancestors at the first known directory and then adds that path to the root listing", "an embedded folder with a directory two or more levels down holding two or more entries", "embedded-fs"),
 "C19": ("C19", "MemoryFS publish re-stamps the creation time when the previous content was empty", "set_creation_time on a file that is still empty, then write through a handle", ""),
 "C20": ("C20", "sync WalkDirIterator::next ignores a failing metadata lookup (if let Ok)", "a metadata call failing during walk_dir / copy_dir / move_dir: entry yielded as Ok, subtree skipped, copy_dir/move_dir report success", ""),
 # second round (one more change per property, again by fresh sub-agents)
 "C01b": ("C01", "PhysicalFS::create_file opens with OpenOptions write+create, losing the truncation File::create implies", "create_file on a path that already holds a longer file (directly, through an altroot, as an overlay write layer)", ""),
 "C02b": ("C02", "MemoryFS reader seek saturates (saturating_add_signed) instead of failing on a position before byte 0", "reader: seek(Start(4)); seek(Current(-5)) - PhysicalFS fails, MemoryFS moves to 0", ""),
 "C03b": ("C03", "OverlayFS::remove_dir prunes the deletion markers of the removed directory's former entries", "lower /d/sub/g: remove_file /d/sub/g, remove_dir /d/sub - /d/sub/g exists again below an absent directory", ""),
 "C04b": ("C04", "PhysicalFS::create_file no longer truncates an existing file (OpenOptions without truncate)", "re-create an existing file and write fewer bytes: the old tail is read back", ""),
 "C05b": ("C05", "PhysicalFS::open_file succeeds on directories (the directory check after File::open is dropped)", "open_file on any directory of a PhysicalFS: observers disagree about the entry's type", ""),
 "C06b": ("C06", "parent_internal strips the length of self's filename instead of the last component of its argument", "join with two or more '..' that climb into a base whose trailing components differ in byte length", ""),
 "C07b": ("C07", "AltrootFS no longer forwards set_creation_time (falls back to the trait's NotSupported default)", "set_creation_time through an altroot", ""),
 "C08b": ("C08", "OverlayFS::whiteout_path creates the marker's parent directory, so every observer writes", "any observer call on an overlay path; a nested overlay as lower layer is then modified", ""),
 "C09b": ("C09", "OverlayFS::remove_file skips the deletion marker when the write layer holds the file", "a file present in the write layer AND a lower layer, then remove_file: the lower copy shows through", ""),
 "C10b": ("C10", "OverlayFS::create_file clears the deletion marker before checking what the lower layer holds", "remove_dir a lower-layer directory through the overlay, then create_file on the same path: error and the directory is back", ""),
 "C11b": ("C11", "create_dir_all returns Ok at once when exists() is true for the target", "create_dir_all whose target is an existing FILE: Ok instead of an error", ""),
 "C12b": ("C12", "PhysicalFS::open_file pre-checks is_file() and answers Other(\"Not a file\") for a missing path instead of FileNotFound", "open_file on an absent path of a PhysicalFS (also in the cross-filesystem fallback of copy_file/move_file)", ""),
 "C13b": ("C13", "MemoryFS writer flush reports an error when its file is gone; Drop does flush().expect(..)", "a write handle dropped after its path was removed or replaced by a directory: panic in drop", ""),
 "C14b": ("C14", "MemoryFS write handle skips publishing when the buffer length is unchanged", "seek back and overwrite in place between two flushes", ""),
 "C15b": ("C15", "async MemoryFS writer publishes over a directory on close (type guard dropped in the async port only)", "w = create_file(p); remove_file(p); create_dir(p); drop/close(w)", "async-vfs"),
 "C16b": ("C16", "MemoryFS WritableFile::flush publishes over whatever now lives at its path", "writer open, its file removed and the path re-created as a directory by another thread, then flush: the directory becomes a file and its children orphans", ""),
 "C17b": ("C17", "PhysicalFS::create_dir becomes check-then-create; the loser's EEXIST surfaces as a plain I/O error", "two or more threads create_dir_all over a shared still-missing prefix on a PhysicalFS", ""),
 "C18b": ("C18", "EmbeddedFS::create_dir answers DirectoryExists for existing directories instead of NotSupported", "create_dir / create_dir_all on an existing embedded directory: create_dir_all reports success on a read-only filesystem", "embedded-fs"),
 "C19b": ("C19", "PhysicalFS sets timestamps through a handle opened for writing", "set_*_time on a read-only file or on a directory of a PhysicalFS", ""),
 "C20b": ("C20", "VfsPath::is_dir conflates 'lookup failed' with 'not a directory' (metadata().map(..).unwrap_or(false))", "an I/O failure of a layer's metadata call while an overlay merges a listing: the layer's entries silently vanish", ""),
 # third round (ten properties, aimed at the adapters and the concurrency checks)
 "C03c": ("C03", "OverlayFS::read_dir subtracts markers with trim_end_matches(\"_wo\"): the bookkeeping sub-directories hide the directories they belong to", "any depth-2 deletion (remove_file /p/d/f): /p vanishes from the root listing; remove_dir /p then succeeds and orphans /p/d", ""),
 "C05c": ("C05", "MemoryFS gains a native move_file (rename of the map entry) that never checks that the source is a file", "move_file on a directory with children: the entry moves, the children stay behind without a parent", ""),
 "C08c": ("C08", "OverlayFS implements move_file by resolving the source with read_path and moving it into the write layer", "move_file of a file that exists only in a lower layer: it is removed from the lower layer", ""),
 "C09c": ("C09", "OverlayFS::ensure_has_parent copies the parent up with create_dir instead of create_dir_all", "create_file / create_dir / append_file below a lower-only directory nested two or more levels deep", ""),
 "C10c": ("C10", "OverlayFS::remove_dir deletes the marker sub-directory of the removed directory", "remove an entry of a lower-layer directory, then the directory: the entry is back; a re-created directory lists the old entries", ""),
 "C11c": ("C11", "the 'destination exists' guard of move_file/copy_dir/move_dir is factored into a helper that looks the destination path up in the SOURCE's filesystem", "transfers between two instances: an occupied destination is overwritten, a free one with the same path as the source is refused", ""),
 "C12c": ("C12", "join's trailing-slash check moved into the relative branch: absolute arguments ending in '/' are accepted", "join(\"/foo/\"), join(\"//\") return Ok instead of InvalidPath", ""),
 "C16c": ("C16", "MemoryFS::read_dir calls self.exists() while holding the read guard (the read lock is taken twice)", "a writer queued between the two acquisitions: both threads, and every later call, hang", "verif-hooks (deterministic demo; the stress demo needs none)"),
 "C17c": ("C17", "OverlayFS::create_dir clears the deletion marker BEFORE creating the directory in the write layer", "two threads create_dir_all on or below a directory that was removed through the overlay: both see the marker, the second remove_file fails FileNotFound", "verif-hooks (deterministic demos; the stress demo needs none)"),
 "C20c": ("C20", "OverlayFS::read_dir merges `if let Ok(entries) = layer_path.read_dir()`: a failing layer listing is skipped", "an I/O failure of a layer's read_dir: partial listings, partial copy_dir, move_dir loses data, remove_dir of a directory non-empty only in the failing layer succeeds", ""),
 # fourth round (the ten properties not in the third)
 "C01d": ("C01", "OverlayFS::append_file copies up from the lower layers without consulting the deletion marker (read_path's lower-layer loop factored out and called directly)", "remove_file on a lower-layer file through the overlay, then append_file on it: succeeds and brings the old bytes back", ""),
 "C02d": ("C02", "MemoryFS WritableFile::flush re-inserts a missing entry: a write handle re-creates a file that was removed while it was open", "create_file or append_file, remove_file (optionally remove_dir of the parent), then flush or drop of the handle", ""),
 "C04d": ("C04", "MemoryFS reader SeekFrom::End is computed from the remaining bytes (the private len() helper) instead of the length", "seek(End(k)) on a read handle whose position has moved", ""),
 "C06d": ("C06", "join_internal returns the unchanged input path when nothing is left after an absolute restart", "join(\"/\") on a non-root base returns the base instead of the root", ""),
 "C07d": ("C07", "AltrootFS::path rejects every path that CONTAINS '..' (substring test instead of a component test)", "names with two consecutive dots inside (a..b, ..x, x..): every call through the altroot fails InvalidPath, exists answers false, read_dir still lists them", ""),
 "C13d": ("C13", "OverlayFS::read_dir strips the marker suffix from every entry of the marker directory with an unchecked subtraction and str slice", "a removal below a directory whose name is shorter than 3 bytes (or has a multi-byte character at len-3), then read_dir of its parent: panic", ""),
 "C14d": ("C14", "MemoryFS reader read() recomputes the cursor from the clamped start: a read past the end moves the cursor back to the end", "seek past the end, read (0 bytes), then a relative seek or read", ""),
 "C15d": ("C15", "async MemoryFS create_file inserts the empty file only when the path is vacant (entry API): a second create_file does not truncate at once", "create_file on an existing file, then observe (metadata, read, append_file) before the new handle is closed", "async-vfs"),
 "C18d": ("C18", "EmbeddedFS rsplit_once_cow: the Borrowed arm uses split_once instead of rsplit_once", "RELEASE builds only (rust-embed yields borrowed names): a file three or more levels deep is registered under the wrong directory", "embedded-fs"),
 "C19d": ("C19", "OverlayFS time setters copy the entry up first (copy_file carries bytes only)", "set_*_time through the overlay on a file that exists only in a lower layer: Ok, but the other two timestamps are re-stamped", ""),
 # fifth round (all twenty properties; earlier.txt listed the three earlier changes per property)
 "C01e": ("C01", "OverlayFS::remove_file / remove_dir write the deletion marker BEFORE removing the write-layer copy", "a removal whose write-layer step fails (remove_file on a directory the write layer holds): the failed call has hidden the entry from listings", ""),
 "C02e": ("C02", "PhysicalFS create_file/append_file share an OpenOptions helper that forgets truncate(!append)", "create_file over a longer existing file on PhysicalFS keeps the old tail", ""),
 "C03e": ("C03", "MemoryFS keeps its entries in a BTreeMap and lists a directory by a sorted range scan that stops at the first non-descendant key", "a sibling whose name sorts between '/d' and '/d/' ('/d.bak', '/d-x', '/d e'): read_dir /d is cut short, remove_dir /d succeeds on a non-empty directory", ""),
 "C04e": ("C04", "OverlayFS::append_file copies a lower-only file up THROUGH the handle it returns (create_file + io::copy) instead of copy_file + append_file", "while that handle is open and unflushed the overlay shows an empty file; a second append session in that window loses the lower bytes", ""),
 "C05e": ("C05", "OverlayFS::read_dir decodes marker names with trim_end_matches(\"_wo\") (strips the suffix repeatedly)", "remove an entry named x_wo: the sibling x vanishes from the listing although exists/metadata/open_file still see it", ""),
 "C06e": ("C06", "join_internal restarts from the root at EVERY empty component (the absolute-restart test moved into the loop)", "a relative argument with a doubled slash from a non-root base: /x + a//b gives /a/b", ""),
 "C07e": ("C07", "AltrootFS::remove_dir refuses the altroot's own root with NotSupported", "remove_dir / remove_dir_all on the root of an altroot (the directory P of the underlying filesystem stays)", ""),
 "C08e": ("C08", "OverlayFS::remove_file removes the path read_path returned when it lives on the same filesystem INSTANCE as the write layer", "layers that are sub-directories of one filesystem: removing a lower-only file deletes it from the lower layer", ""),
 "C09e": ("C09", "OverlayFS::append_file takes its copy-up source from the lower layers directly (lower_path), skipping the deletion marker", "append_file on a lower-layer file that was removed through the overlay: succeeds and resurrects the old bytes", ""),
 "C10e": ("C10", "OverlayFS::remove_dir checks the merged listing for emptiness only when the write layer has no copy of the directory", "a lower directory with entries whose write-layer copy is empty (left by create+remove inside it): remove_dir succeeds, the lower entries stay reachable and come back on re-creation", ""),
 "C11e": ("C11", "OverlayFS gains a native copy_file that copies into the write layer without clearing the destination's deletion marker", "copy (or copy_dir/move_dir) within one overlay onto a name that was removed earlier: the copy exists but its parent does not list it", ""),
 "C12e": ("C12", "PhysicalFS::exists returns every OS error but NotFound as Err; VfsPath::exists never fills in the path", "exists / is_file / is_dir / remove_dir_all on a path below a regular file (ENOTDIR): an error with the unfilled placeholder path", ""),
 "C13e": ("C13", "async PhysicalFS blocking_io calls tokio::task::spawn_blocking without probing for a runtime", "set_modification_time / set_access_time on an AsyncPhysicalFS driven by futures::executor::block_on or async_std: panic instead of NotSupported", "async-vfs"),
 "C14e": ("C14", "MemoryFS reader seek does Current/End with one signed addition (base as i64).checked_add(offset)", "positions at or above 2^63: Start(u64::MAX); Current(0) errors; Start(2^63+4); Current(i64::MAX) wraps to 3", ""),
 "C15e": ("C15", "AsyncReadableFile::len() returns the bytes left to read (like the sync helper) while poll_seek still uses it as the base of SeekFrom::End", "seek(End(k)) on an async MemoryFS read handle whose cursor has moved", "async-vfs"),
 "C16e": ("C16", "MemoryFS::open_file reads under the read lock and stamps the access time under a separate write lock (new yield point)", "between the two: a content change of the same path and a set_access_time - the stamp overwrites the explicitly set time / lands on the entry that replaced the file", "verif-hooks"),
 "C17e": ("C17", "OverlayFS::ensure_has_parent mirrors a lower-only parent with `if !exists { ensure_has_parent(parent); create_dir }`", "two threads create_dir_all below a directory only the lower layer holds: the loser's DirectoryExists for the PARENT is taken for the child's, the child is skipped", "verif-hooks (deterministic demos; a stress demo needs none)"),
 "C18e": ("C18", "EmbeddedFS derives Default instead of `Default::default() = Self::new()`: a default-built instance has empty indexes", "EmbeddedFS built with Default::default(): nothing exists but the root, metadata of the root is not-found, open_file still delivers bytes", "embedded-fs"),
 "C19e": ("C19", "PhysicalFS time setters go through a helper that reads the current times; the fallback for the access time uses the modification time", "set_access_time(A) then set_modification_time(M): the access time becomes the previous modification time", ""),
 "C20e": ("C20", "VfsPath::create_dir_all forgives a failed create_dir when the path already is a directory", "an I/O failure inside an overlay's create_dir after the write-layer directory was made (marker check / removal): create_dir_all reports success, the directory is hidden from listings", ""),
 # sixth round (one more change per property)
 "C01f": ("C01", "OverlayFS::read_dir joins the absolute path onto each layer (join treats it as absolute): layers that are sub-directories are listed from their filesystem's root", "an overlay whose layers are non-root paths, listing any directory but the overlay's root: empty listing, remove_dir of a non-empty directory succeeds", ""),
 "C02f": ("C02", "the stream-copy fallback of copy_file / move_file (factored into a helper) creates the destination before it opens the source", "copy_file / move_file whose source is a directory or missing: Err, but an empty destination file is left behind", ""),
 "C03f": ("C03", "the same helper, arrived at independently: destination created before the source is opened", "overlay append_file on a non-empty directory that only a lower layer has: Err, and an empty FILE now shadows the directory whose children still exist", ""),
 "C04f": ("C04", "VfsPath::copy_file drops the same-instance guard: the source filesystem's native copy_file runs even when the destination belongs to another instance", "copy between two PhysicalFS / AltrootFS instances: Ok, nothing arrives; overlay copy-up over physical layers truncates the LOWER file", ""),
 "C05f": ("C05", "MemoryFS keeps its entries in a BTreeMap; remove_dir's emptiness test looks only at the key following the directory's own", "a non-empty directory with a sibling whose name extends it by a character sorting before '/' (docs + docs.txt): remove_dir succeeds, children orphaned", ""),
 "C06f": ("C06", "extension_internal splits the whole path at the last dot instead of the file name", "a dotless file name below a directory with a dot in its name", ""),
 "C07f": ("C07", "AltrootFS::read_dir strips the directory prefix with trim_start_matches", "a directory one level below the altroot's root holding entries whose names start with the directory's name", ""),
 "C08f": ("C08", "OverlayFS::new drops layers whose root does not exist", "the write layer's directory is created after the overlay is constructed: the first lower layer becomes the write layer", ""),
 "C09f": ("C09", "OverlayFS::read_dir decodes marker names with split_once(\"_wo\")", "removing an entry whose name contains _wo before its end (net_work.txt): still listed; a sibling named like the prefix vanishes", ""),
 "C10f": ("C10", "OverlayFS::read_dir decodes marker names with trim_end_matches(\"_wo\") (the same slip as C05e, arrived at independently)", "remove x_wo_wo or x_wo next to x", ""),
 "C11f": ("C11", "remove_dir_all drops its exists() pre-check and treats only FileNotFound from read_dir as absent", "remove_dir_all on an absent path below a regular file on PhysicalFS (ENOTDIR): Err instead of Ok", ""),
 "C12f": ("C12", "AsyncPhysicalFS wraps the io::Error of its time setters as AsyncIoError, bypassing the NotFound normalisation", "async set_modification_time / set_access_time on a missing path of a physical directory", "async-vfs"),
 "C13f": ("C13", "async WalkDirIterator keeps the completed metadata future in its slot on the error path and polls it again", "a walked entry whose metadata fails (removed after the listing, dangling symlink) followed by another entry: panic 'async fn resumed after completion'", "async-vfs"),
 "C14f": ("C14", "PhysicalFS::create_file opens without truncate (as C01b / C04b, arrived at independently)", "create_file over a longer existing file", ""),
 "C15f": ("C15", "AsyncVfsPath::create_dir_all returns Ok when exists() is true for the target", "async create_dir_all on an existing FILE: Ok, sync says FileExists", "async-vfs"),
 "C16f": ("C16", "MemoryFS::create_file builds the WritableFile before taking the lock: on an error return the stale writer's drop publishes an empty buffer", "create_file fails (no parent); another thread creates parent and file and writes; the failed call's leftover writer then truncates it", "verif-hooks (deterministic demos; the stress demo needs none)"),
 "C17f": ("C17", "OverlayFS create_dir / create_file prune empty marker directories after clearing a marker (list-then-remove_dir, not atomic)", "two sibling directories removed through the overlay are re-created concurrently: the loser's remove_dir of the shared marker directory fails", "verif-hooks (deterministic demos; the stress demos need none)"),
 "C18f": ("C18", "EmbeddedFS::metadata answers Directory for every normalised path of length <= 1", "metadata on a missing one-byte top-level name", "embedded-fs"),
 "C19f": ("C19", "PhysicalFS::metadata uses symlink_metadata", "a served entry that is a symbolic link: the setters change the target, metadata reports the link", ""),
 "C20f": ("C20", "the stream copy of copy_file / move_file writes through a BufWriter that is never flushed: write errors surface in its drop, which discards them", "any failing write on the destination handle: copy_file / move_file / copy_dir / move_dir / overlay copy-up report success with an empty destination", ""),
 # seventh round
 "C01g": ("C01", "MemoryFS entries in a BTreeMap; `list` scans forward from the directory's key while keys start with '<dir>/'", "a non-empty directory with a sibling named <dir> + a character below '/' (docs.txt, docs-old): read_dir empty, remove_dir succeeds", ""),
 "C02g": ("C02", "PhysicalFS::exists uses Path::try_exists()? (errors are no longer swallowed)", "exists / is_file / is_dir / remove_dir_all on a path below a regular file: ENOTDIR becomes Err, MemoryFS says Ok(false)", ""),
 "C03g": ("C03", "MemoryFS gains a native move_file (re-keys the map entry) that never checks that the source is a file", "move_file with a directory as source: children orphaned; source root: the root disappears", ""),
 "C04g": ("C04", "async MemoryFS writer publishes on close() through a helper that moves the buffer out; the drop after it publishes the emptied buffer", "write, close().await, drop: the file reads back empty", "async-vfs"),
 "C05g": ("C05", "VfsPath::is_file / is_dir go through one metadata() call and treat only FileNotFound as absent", "a path below a plain file on PhysicalFS: exists false, is_dir Err; overlay read_dir of a directory shadowing a lower physical file fails", ""),
 "C06g": ("C06", "filename_internal feeds the BYTE offset of the last '/' to chars().skip()", "a multi-byte character before the last separator: filename() / extension() lose leading characters", ""),
 "C07g": ("C07", "AltrootFS::create_dir calls create_dir_all on the underlying path", "create_dir on an existing directory: Ok; a missing altroot directory and its ancestors are created", ""),
 "C08g": ("C08", "OverlayFS::append_file removes 'the truncated copy' after a failed copy-up, resolving it with read_path", "append_file on a lower-only directory of a nested overlay / a name too long for a physical write layer: remove_file reaches the lower layer", ""),
 "C09g": ("C09", "OverlayFS::create_file clears the deletion marker before the lower-layer-directory check", "remove_dir a lower-layer directory, then create_file on it: error AND the directory is back", ""),
 "C10g": ("C10", "OverlayFS::append_file takes its copy-up source from a helper that skips the marker lookup (as C01d, arrived at independently)", "append_file on a lower-layer file removed through the overlay", ""),
 "C11g": ("C11", "the copy_file fallback reads the source with read_to_string and writes it back", "any file that is not UTF-8, copied across instances or within a MemoryFS / OverlayFS", ""),
 "C12g": ("C12", "copy_file's final relabel with the source path is dropped", "same-instance copy_file on PhysicalFS / AltrootFS that fails in the backend: placeholder path, or the path of the layer below the adapter", ""),
 "C13g": ("C13", "EmbeddedFS::metadata indexes its length map with a key that only rust-embed's lenient lookup accepted", "metadata / read_to_string on a backslash alias of an embedded file: panic", "embedded-fs"),
 "C14g": ("C14", "MemoryFS reader overrides read_to_end without advancing the cursor", "read_to_end followed by any further use of the handle", ""),
 "C15g": ("C15", "AsyncVfsPath::copy_dir opens the source walk before creating the destination", "copy_dir whose source is missing or a file: sync leaves an empty destination directory, async does not; error classes differ", "async-vfs"),
 "C16g": ("C16", "MemoryFS::append_file moves the committed buffer into the writer when it is unshared", "a non-empty file: metadata / open between append-open and publish see length 0; two appenders lose the initial content", "verif-hooks (one of four demos; the others need none)"),
 "C17g": ("C17", "AsyncOverlayFS::create_dir classifies the occupant from one torn read_path walk", "async tasks re-creating a path whose removed lower entry is a FILE: the loser reports FileExists", "async-vfs"),
 "C18g": ("C18", "EmbeddedFS normalize_path rejects every path that contains '..' as a substring", "embedded names with two consecutive dots (v1..2.txt, ..data)", "embedded-fs"),
 "C19g": ("C19", "OverlayFS::metadata reports for directories the newest modification time across all layers", "set_modification_time to a past value on a directory present in the write layer and a lower layer", ""),
 "C20g": ("C20", "copy_dir rolls the destination back when an entry fails to copy and returns the clean-up's result", "any k-th-call fault after the destination was created: Ok(n) with no destination", ""),
}
matrix = {}
mp = os.path.join(ROOT, "seeded", "matrix.txt")
if os.path.exists(mp):
    for line in open(mp):
        t = line.split()
        if len(t) >= 3:
            matrix.setdefault(t[0], {})[t[1]] = t[2]
for sid, (prop, what, needs, feats) in SEED.items():
    d = os.path.join(ROOT, "seeded", sid)
    if not os.path.isdir(d):
        continue
    demo = [f for f in os.listdir(d) if f.endswith(".rs")]
    det = sorted(c for c, v in matrix.get(sid, {}).items() if v == "DETECTED")
    meta = {
        "id": sid, "breaks_property": prop, "change": what, "needs_to_manifest": needs,
        "cargo_features_for_demo": feats, "patch": "patch.diff", "demonstration": demo[0] if demo else None,
        "origin": "written by a fresh sub-agent that saw only the property text and a scratch worktree of /repo",
        "confirmed_by": ["tools/seed_verify.sh %s <patch> <demo> %s : in a scratch worktree of /repo HEAD the patch applies, "
                         "`cargo test --workspace --offline` = 397 passed, the demo fails with the patch and passes without "
                         "(verify.log)" % (sid, feats.split(" ")[0] if feats else ""),
                         "tools/mutant_matrix.sh %s : `git -C /repo apply`, every quick check, `git -C /repo checkout -- .`" % sid],
        "detected_by_quick_checks": det,
        "own_property_check_detects": prop in det,
    }
    json.dump(meta, open(os.path.join(d, "meta.json"), "w"), indent=1)
print("wrote meta for", sorted(SEED))
