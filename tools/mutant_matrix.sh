#!/bin/bash
# mutant_matrix.sh <seed ids...> : for each seeded change, apply it to /repo, run EVERY quick check, undo;
# appends "<id> <check> <DETECTED|quiet> <first violation line>" to /verif/seeded/matrix.txt
ALL="C01 C02 C03 C04 C05 C06 C07 C08 C09 C10 C11 C12 C13 C14 C15 C16 C17 C18 C19 C20"
for id in "$@"; do
  git -C /repo status --short | grep -q . && { echo "/repo not clean"; exit 2; }
  git -C /repo apply /verif/seeded/$id/patch.diff || { echo "$id cannot apply"; continue; }
  sed -i "/^$id /d" /verif/seeded/matrix.txt 2>/dev/null
  for c in $ALL; do
    out=$(cd /verif && ./check $c 2>&1)
    v=$(echo "$out" | grep -m1 "^VIOLATION")
    if [ -n "$v" ]; then echo "$id $c DETECTED $v" >> /verif/seeded/matrix.txt; else echo "$id $c quiet" >> /verif/seeded/matrix.txt; fi
  done
  git -C /repo checkout -- .
done
