#!/usr/bin/env python3
"""regenerate MANIFEST.json from the table below"""
import json, os
ROOT = os.path.dirname(os.path.dirname(os.path.abspath(__file__)))
props = [json.loads(l) for l in open(os.path.join(ROOT, "properties.jsonl"))]
TRUST = ("Trusted: Coq 8.16.1 kernel; hand-written model tied to /repo by the differential correspondence check (extracted OCaml "
         "model vs Rust harness on the same generated cases, rebuilt from the working tree on every run); see DESIGN.md Part IV.")
C = {
 "C01": ("Theorems (closed): Spec/Tree.v is the abstract tree with the contract of each primitive; for the public path API on a MemoryFS instance, every well-formed state and EVERY path: create_dir, create_file, remove_file, remove_dir, write sessions (drop/flush), exists, metadata, read_dir produce exactly the outcome class and the new abstract tree the contract prescribes and keep well-formedness; the contracts themselves imply 'failed call changes nothing' and 'only the named entry changes'. Correspondence on all 15 configurations (memory, physical, altroot, overlays 1-3 layers, stackings) plus a contract oracle written independently of the model that replays the abstract contracts against the implementation's transcript.",
         "partial: the refinement theorem is proved for MemoryFS; PhysicalFS and the adapters are tied to the same contracts by the model correspondence and by the independent contract oracle. Known finding D15.",
         "Coq refinement proof (abstraction function to the spec tree, per-call simulation) + differential correspondence + independent contract oracle"),
 "C16": ("Theorems (closed): on the MemoryFS model every trait call except open_file takes the lock exactly once (its result and effect are those of one lock section); therefore, for every number of threads, every per-thread call list and EVERY schedule, the interleaved execution equals the sequential execution of the calls in lock order, which respects each thread's program order; every step keeps the tree well formed and never panics; a publish after removal does not resurrect. Correspondence: the harness enumerates ALL schedules at the verif-hooks yield points (one before every RwLock acquisition) of directed and random small programs, checks each outcome against the sequential interleavings run on the real MemoryFS, and replays the schedules on the Coq interleaved semantics (labels, results, final state).",
         "partial: OS scheduling and RwLock fairness are replaced by a cooperative scheduler; that all shared state is behind the lock is an assumption; open_file (two sections) and the multi-call VfsPath methods are decided by the exhaustive schedule enumeration, not by the theorem; results of failing calls are compared as 'error'.",
         "Coq proof (atomic sections => schedule order is a linearization) + exhaustive schedule enumeration with a linearizability oracle + schedule replay on the model"),
 "C17": ("Theorem (closed): for every number of threads, every list of requested paths (any overlap), every well-formed MemoryFS state without files on the requested prefixes and EVERY schedule of the create_dir steps, no create_dir_all thread fails, and a finished thread has all its prefixes in place as directories (invariant: directories only grow; when a thread attempts prefix k, prefix k-1 is a directory). Correspondence: all interleavings at lock granularity on MemoryFS, AltrootFS over it and OverlayFS over it (capped), sample replayed on the model; barrier-started OS threads on PhysicalFS and AltrootFS over it.",
         "partial for PhysicalFS (mkdir atomicity and EEXIST are the kernel's; sampled); adapters are covered by the schedule enumeration, the theorem is for MemoryFS.",
         "Coq invariant proof by induction over the schedule + exhaustive schedule enumeration / stress runs"),
 "C18": ("Theorems (closed): for EVERY list of embedded files (any names, any depth) the maps built by EmbeddedFS::new list under each directory exactly the next components of the files below it, the directories are exactly the root and the proper prefixes of file paths, the files are the files with their bytes and lengths, exists agrees with that, every mutating call is refused as not-supported (no mutable state), the root behaves like a directory even when nothing is embedded. Correspondence: a fixture folder embedded with rust-embed compared with PhysicalFS over the same folder on every path of a universe (files, implied directories, absent siblings, prefixes/extensions of names, below files) and with the model.",
         "rust-embed's iter/get are modelled as 'the list of files and their bytes'; timestamps of embedded files are not compared.",
         "Coq induction over the file list (fold invariant) + lock-step comparison with PhysicalFS on the fixture"),
 "C20": ("Theorems (closed): the injected fault is an I/O error of the failing call and the wrapped filesystem is not called; `?` propagates every error and skips the continuation; relabelling keeps the error kind; create_dir_all tolerates only directory-exists; OverlayFS::exists lets every error but not-found through; lower overlay layers are never written whatever the layers reply (C08 over all reply branches). Correspondence: for histories on 11 stackings, one operation runs with the k-th call through a chosen wrapper failing; outcome, snapshot and call sequence are compared with the model's faulted run; oracle: no panic, success only with the full contractual effect, truthful observers.",
         "partial: the theorems are the building blocks of propagation; that every composite/adapter operation is built from these propagating sites only is decided by the faulted correspondence runs (k up to 16), not yet by a theorem over all programs.",
         "Coq lemmas on the faulted semantics + fault-enumerating differential correspondence + contract oracle"),
 "C03": ("Theorems (closed): the tree invariant (root is a directory, every entry has a parent directory) holds initially and is preserved by every lock section and every trait call of the MemoryFS model for all paths and wrong-type calls, by publish of write handles at any later time; a file never has children; every entry is listed by its parent. The obligation the backend leaves to its caller (parent is a directory) is explicit as call_guard. Correspondence: untyped histories on 15 configurations + universe probes, with an implementation-only oracle for orphans.",
         "partial: the invariant is proved for the MemoryFS model at trait-call level; adapters and PhysicalFS are covered by the correspondence check and the orphan oracle. Known finding D15 (overlay remove_file on a lower-layer directory, pinned by an existing test).",
         "Coq invariant proof (induction over calls, case analysis per lock section) + differential correspondence + orphan oracle"),
 "C04": ("Theorems (closed): write cursor laws for all byte strings (create/append/gap zero-fill/in-place overwrite), publish-on-flush/drop stores exactly the buffer and metadata reports its length, a reader opened after a flush gets the buffer, reading with ANY sequence of buffer sizes returns the content once and in order, directories keep length 0. Correspondence: write-session scripts on 15 configurations incl. overlay copy-up, 8 KiB boundary and 70 kB contents.",
         "std::io::Cursor / io::copy semantics are a stated model (Base/Handles.v) validated differentially; PhysicalFS bytes go through the modelled OS.",
         "Coq proofs over lists (unbounded byte strings, all buffer-size sequences) + differential correspondence"),
 "C05": ("Theorems (closed, MemoryFS model): the listing of p holds exactly the names n with p++[n] present, each once; exists/metadata/read_dir/open_file characterised by presence and type for every path. Correspondence + implementation-only oracle on all 15 configurations: all observers and walk_dir agree on every universe path (prefix-sharing, dotted, multi-byte names; absent paths).",
         "partial: walk_dir and the adapters are decided by the oracle and the correspondence, not yet by a theorem.",
         "Coq proofs about the prefix scan as component match + observer-consistency oracle + differential correspondence"),
 "C07": ("Theorems (closed): for every trait call on an altroot over a base filesystem and every reply of the base, every call reaching the base names only paths root++q (sole exception: the parent probe of VfsPath::create_* on the altroot root), stated with calls_ok over all reply branches; path expressions are resolved inside the altroot namespace before AltrootFS sees them (C06) and AltrootFS::path is root++q; observers stay observers through altroots. Correspondence: hostile path expressions, call logs of the underlying instance compared call by call, outside-P snapshot unchanged.",
         "partial for PhysicalFS (symlinks and the kernel's path walk are outside the model, as the property says).",
         "Coq syntactic proof over program trees (all replies) + call-log correspondence + confinement oracle"),
 "C08": ("Theorems (closed): (1) for ANY layer implementations, OverlayFS sends mutating calls only to layer 0 (a lower layer receives one only if it is the same instance as layer 0), for every reply the layers give; (2) by induction over arbitrary stackings (altroot, nested overlays, wrappers): observers issue no mutating base call, every call's mutating base calls go to the base filesystems under the write path. Correspondence: call logs of all layers, stat-only snapshots of lower layers before/after.",
         "Known finding D20: MemoryFS::open_file stamps atime below the trait boundary, so reading re-times a lower MemoryFS file (witness theorem C08_retimes_witness).",
         "Coq syntactic proof over program trees for all replies, structural induction over the stacking term + call-log oracle"),
 "C09": ("Theorems (closed): for an overlay of two MemoryFS layers and EVERY pair of layer contents and every path, the path is served from the upper layer if present there, else from the lower one, unless its deletion marker is present, resolution changes neither layer, and existence in the overlay is existence in the union minus deleted paths. Correspondence: typed histories through 9 overlay stackings with densely pre-populated layers; from the implementation's first snapshot (the union it shows) every call is checked against the abstract contracts by an oracle independent of the model (create over lower-only entry => exists, remove_dir with lower children => non-empty, append continues lower bytes).",
         "partial: the union rule is proved for two MemoryFS layers; that mutators obey C01's contracts relative to the union is decided by the contract oracle and the model correspondence. Known findings D15 (remove_file on a lower-layer directory, pinned by an existing test) and D13 (time setters on lower-only entries).",
         "Coq symbolic execution of read_path/exists over arbitrary layer contents + model-independent contract oracle + differential correspondence"),
 "C10": ("Theorems (closed, for ANY layers and any history): while the deletion marker of a path is present, exists is false and metadata/open_file/read_dir are not-found, whatever the layers contain; distinct paths have distinct markers; the bookkeeping directory is never in the root listing whatever the layers reply; a listed marker is subtracted from its directory's listing. Correspondence: removal-heavy histories with re-creation cycles of changing type, every tree compared with the contracts by the model-independent oracle; root listing and walk scanned for markers.",
         "partial: that removal sets the marker and re-creation clears it is part of the model programs validated differentially. exists('/.whiteout') itself is still true (only listings hide the bookkeeping directory; hiding it in lookups would break nested overlays) - reserved names are outside C01's domain. Known finding D15.",
         "Coq lemmas over arbitrary handlers/replies + contract oracle + differential correspondence"),
 "C11": ("Theorems (closed): create_dir_all on a MemoryFS instance is exact for every path and well-formed state (succeeds when no file is in the way, all prefixes are directories afterwards, every other entry untouched, tree well formed); its loop is the fold of create_dir tolerating only DirectoryExists; every transfer reports failures on the path it was called on. Correspondence: composite-heavy histories on 15 configurations with names where children start with the parent's name, checked by the model-independent contract oracle (exact subtrees, copy_dir count, source untouched/gone, existing destination refused without side effects) and transfers between every ordered pair of six instances compared with a copy computed from the snapshots.",
         "partial: remove_dir_all, copy/move (file and dir) are decided by the contract oracle and the model correspondence, not by a theorem.",
         "Coq invariant proof for the create_dir_all loop + model-independent contract oracle over all instance pairs"),
 "C12": ("Theorems (closed): for ANY filesystem below (all replies): every primitive (metadata, open/append/create_file, remove_*, read_dir, create_dir, set_*_time, is_file/is_dir) returns errors naming the call's path (or, for a parent that vanished mid-call, the parent), create_dir_all the failing ancestor, remove_dir_all and walk_dir items a descendant, transfers the call's path; the only unrelabelled call, exists, cannot fail on any stacking of the built-in backends (induction over the stacking term), so the placeholder never escapes; trailing-slash joins are invalid-path errors naming the argument; not-found / file-exists / directory-exists classification of the contracts. Correspondence: untyped histories with error kind and path compared exactly + oracle that every implementation error path lies in the caller's namespace.",
         "exists of a custom failing filesystem below an adapter is outside the built-in stackings (placeholder would escape there).",
         "Coq leaf-predicate proof over program trees (all replies) + induction over stackings + error-path oracle"),
 "C13": ("Theorems (closed): no lock section / trait call of the MemoryFS model, no call of the modelled OS, no EmbeddedFS call panics on any state and path; the MemoryFS reader returns Ok at every u64 position and buffer size and keeps its position in range under any seek script; join is total. Correspondence: catch_unwind around every call of untyped histories, root/odd-argument calls, handles after removal, hostile on-disk names (non-UTF-8, dangling symlink, loop), debug and release.",
         "partial: absence of panics in the adapters and VfsPath composites is decided by the differential runs (panic is an explicit model outcome, never observed), not yet by a theorem over all stackings; async port and EmbeddedFS harness pending.",
         "Coq case analysis per call + explicit Panic outcomes + catch_unwind differential runs in two build profiles"),
 "C14": ("Theorems (closed): the MemoryFS read handle equals the reference cursor call by call for every content, position and request (read = slice at the position, seek before start is an error leaving the position, reads past the end return nothing); the write cursor puts data at the position, keeps earlier bytes, zero-fills gaps, keeps later bytes; create starts empty, append at the end. Correspondence: handle scripts with boundary offsets on 6 configurations, debug+release.",
         "std::io::Cursor is a stated reference model; seek on append handles compared on in-memory backends only, as the property says.",
         "Coq proofs with explicit u64/i64 ranges (Z) + script correspondence"),
 "C19": ("Theorems (closed): on the MemoryFS model each setter stores exactly the value in exactly that field of that entry (files and directories, all Z time values), metadata reports it, other entries untouched (frame), absent target is not-found without change, publish keeps creation/access time; PhysicalFS creation time and EmbeddedFS setters are NotSupported without change. Correspondence: timestamp histories on 9 configurations comparing all three fields.",
         "partial for PhysicalFS (timestamp granularity/atime policy are the host's: atime compared only right after set_access_time). Known finding D13 applies to C09/C19 on overlays (setters on lower-only entries).",
         "Coq equational proofs on finite maps + differential correspondence of metadata records"),
}
C06 = json.load(open(os.path.join(ROOT, "MANIFEST.json")))["checks"][0] if os.path.exists(os.path.join(ROOT, "MANIFEST.json")) else None
checks = []
for p in props:
    pid = p["id"]
    if pid == "C06" and C06:
        c = [x for x in json.load(open(os.path.join(ROOT, "MANIFEST.json")))["checks"] if x["property_id"] == "C06"][0]
        checks.append(c)
    elif pid in C:
        text, note, tech = C[pid]
        checks.append({
            "property_id": pid, "quick_cmd": "./check %s --tier quick" % pid, "thorough_cmd": "./check %s --tier thorough" % pid,
            "evidence_file": "/verif/evidence/%s.json" % pid, "replay_cmd_template": "./check %s --replay {path}" % pid,
            "engine": "coq-model+correspondence",
            "level_claimed": {"category": "proof", "text": text, "design_ref": "DESIGN.md Part II " + pid},
            "level_note": note + " " + TRUST, "technique": tech})
claimed = {c["property_id"] for c in checks}
PENDING = {
 "_C01": "refinement theorem to the abstract tree under construction (model and correspondence exist; not registered until the theorem is pinned)",
 "C02": "MemoryFS/PhysicalFS bisimulation theorem under construction (both models run in lock-step in the harness already)",
 "_C09": "overlay union-view theorem under construction",
 "_C10": "whiteout persistence theorem under construction",
 "_C11": "composite-operation exactness theorems under construction",
 "_C12": "error-path theorem (leaf predicate over program trees) under construction",
 "C15": "async harness and the three hand-written async pieces not yet modelled",
 "_C16": "interleaved semantics and scheduler hooks not yet built",
 "_C17": "interleaved semantics and scheduler hooks not yet built",
 "_C18": "EmbeddedFS fixture comparison not yet registered",
 "_C20": "faulted semantics check not yet registered",
}
na = [{"property_id": p["id"], "reason": PENDING.get(p["id"], "pending")} for p in props if p["id"] not in claimed]
m = {"version": 1, "setup_cmd": "./setup.sh",
     "hooks": {"guard": "cargo feature verif-hooks", "enable": "harness/Cargo.toml: vfs = { path = \"/repo\", features = [\"embedded-fs\", \"async-vfs\", \"verif-hooks\"] }; the hooks are only used by `vfsx --conc` (C16, C17)",
               "baseline_off_cmd": "cd /repo && cargo test --workspace --no-fail-fast --offline", "source_commits": ["21b5e12"], "add_only": True},
     "engines": [{"name": "coq-model+correspondence", "path": "/verif/coq", "serves_properties": sorted(claimed),
                  "kind_free_text": "hand-written executable Gallina model with Coq theorems; extracted to OCaml and run against the Rust crate on generated cases"}],
     "checks": checks,
     "notes": "see DESIGN.md; known_findings.json lists repaired defects (fix: commits in /repo) and recorded findings",
     "not_applicable": na}
json.dump(m, open(os.path.join(ROOT, "MANIFEST.json"), "w"), indent=1)
print("claimed:", sorted(claimed))
