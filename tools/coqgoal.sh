#!/bin/sh
# usage: coqgoal.sh <file.v> <line>  -- show the proof state after the given line
f="$1"; n="$2"
tmp=/tmp/coqgoal_$$.v
head -n "$n" "$f" > $tmp
echo "Show." >> $tmp
cd /verif/coq && coqc -Q theories VFS $tmp 2>&1 | grep -v "WARNING\|pending proofs" | tail -${3:-40}
rm -f $tmp /tmp/coqgoal_$$.vo /tmp/coqgoal_$$.glob /tmp/.coqgoal_$$.aux
