"""Shared machinery of the checks: building the Coq development, the extracted model and the
Rust harness; running case files through both; comparing the observation lines."""
import hashlib
import json
import os
import subprocess
import sys
import time
from concurrent.futures import ThreadPoolExecutor

ROOT = os.path.dirname(os.path.dirname(os.path.abspath(__file__)))
COQ = os.path.join(ROOT, "coq")
OCAML = os.path.join(ROOT, "ocaml")
HARNESS = os.path.join(ROOT, "harness")
WORK = os.path.join(ROOT, "work")
ENV = dict(os.environ, CARGO_NET_OFFLINE="true")
NPROC = 16


def sh(cmd, cwd=None, timeout=3600, env=None, check=True):
    p = subprocess.run(cmd, shell=True, cwd=cwd, env=env or ENV, timeout=timeout,
                       stdout=subprocess.PIPE, stderr=subprocess.STDOUT, text=True)
    if check and p.returncode != 0:
        raise RuntimeError("command failed (%d): %s\n%s" % (p.returncode, cmd, p.stdout[-4000:]))
    return p.returncode, p.stdout


# ---------------------------------------------------------------------------------- builds

def build_coq(targets=None, timeout=3000):
    """full .vo build (never -vos); returns (ok, output)"""
    if not os.path.exists(os.path.join(COQ, "Makefile")):
        sh("coq_makefile -f _CoqProject -o Makefile", cwd=COQ)
    tgt = " ".join(targets) if targets else ""
    rc, out = sh("timeout %d make -j%d %s" % (timeout, NPROC, tgt), cwd=COQ, check=False, timeout=timeout + 60)
    return rc == 0, out


def build_model():
    """extract the model and compile the OCaml driver; rebuilt when a model source is newer"""
    exe = os.path.join(OCAML, "vfsmodel")
    srcs = []
    for d, _, fs in os.walk(os.path.join(COQ, "theories")):
        for f in fs:
            if f.endswith(".v") and "/Proofs" not in d and "/Props" not in d:
                srcs.append(os.path.join(d, f))
    srcs.append(os.path.join(OCAML, "driver.ml"))
    if os.path.exists(exe) and all(os.path.getmtime(s) <= os.path.getmtime(exe) for s in srcs):
        return exe
    ok, out = build_coq(["theories/Layer/Run.vo"])
    if not ok:
        raise RuntimeError("model does not compile:\n" + out[-3000:])
    sh("coqc -Q ../coq/theories VFS ../coq/theories/Extract.v", cwd=OCAML)
    sh("ocamlfind ocamlopt -O3 -w -a -package str vfsmodel.mli vfsmodel.ml driver.ml -o vfsmodel", cwd=OCAML)
    return exe


def build_harness(release=False, features=""):
    """cargo rebuilds from /repo's current working tree (path dependency)"""
    os.makedirs(os.path.join(HARNESS, "fixtures", "empty"), exist_ok=True)   # git does not keep empty folders
    flag = "--release" if release else ""
    feat = ("--features " + features) if features else ""
    rc, out = sh("cargo build --offline %s %s 2>&1" % (flag, feat), cwd=HARNESS, check=False, timeout=1800)
    if rc != 0:
        raise RuntimeError("harness does not build against /repo:\n" + out[-4000:])
    return os.path.join(HARNESS, "target", "release" if release else "debug", "vfsx")


# ---------------------------------------------------------------------------------- running

def _run_one(args):
    exe, path, extra = args
    p = subprocess.run([exe] + extra + [path], stdout=subprocess.PIPE, stderr=subprocess.PIPE, text=True,
                       timeout=3000)
    return p.returncode, p.stdout, p.stderr


def split_cases(text, shards):
    """split a case file into at most `shards` pieces on case boundaries"""
    cases = []
    cur = []
    for line in text.splitlines():
        if line.startswith("case "):
            if cur:
                cases.append(cur)
            cur = [line]
        else:
            cur.append(line)
    if cur:
        cases.append(cur)
    n = max(1, min(shards, len(cases)))
    out = [[] for _ in range(n)]
    for i, c in enumerate(cases):
        out[i % n].extend(c)
    return ["\n".join(x) + "\n" for x in out], len(cases)


def run_both(casetext, tag, sorted_mode=True, release=False, impl_extra=None):
    """returns (model_lines, impl_lines) as dicts keyed by (kind, case, idx)"""
    os.makedirs(WORK, exist_ok=True)
    model = build_model()
    impl = os.path.join(HARNESS, "target", "release" if release else "debug", "vfsx")
    pieces, _ = split_cases(casetext, NPROC)
    jobs = []
    for i, p in enumerate(pieces):
        f = os.path.join(WORK, "%s_%d.cases" % (tag, i))
        open(f, "w").write(p)
        jobs.append((model, f, []))
        extra = [] if sorted_mode else ["--unsorted"]
        jobs.append((impl, f, extra + (impl_extra or [])))
    with ThreadPoolExecutor(max_workers=NPROC) as ex:
        res = list(ex.map(_run_one, jobs))
    mlines, ilines = {}, {}
    for j, (rc, out, err) in enumerate(res):
        tgt = mlines if j % 2 == 0 else ilines
        if rc != 0:
            raise RuntimeError("%s failed on %s: rc=%d %s" % ("model" if j % 2 == 0 else "harness", jobs[j][1], rc, err[-2000:]))
        for line in out.splitlines():
            parts = line.split(" ", 3)
            if len(parts) < 4:
                continue
            tgt[(parts[0], parts[1], int(parts[2]))] = parts[3]
    for i in range(len(pieces)):
        try:
            os.remove(os.path.join(WORK, "%s_%d.cases" % (tag, i)))
        except OSError:
            pass
    return mlines, ilines


# ---------------------------------------------------------------------------------- text forms

def hexs(b):
    if isinstance(b, str):
        b = b.encode("utf-8")
    return b.hex() if b else "-"


def unhex(s):
    return b"" if s == "-" else bytes.fromhex(s)


def ps(k, *steps):
    """pathspec: ps(0, 'a/b') = root_0.join('a/b'); a step 'PARENT' is .parent(), 'ROOT' is .root()"""
    return "%d:%s" % (k, ",".join("p" if s == "PARENT" else "r" if s == "ROOT" else "j" + hexs(s) for s in steps))


class Case:
    def __init__(self, name):
        self.name = name
        self.lines = ["case " + name]
        self.nfs = 0
        self.nops = 0
        self.ops = []

    def base(self, kind):
        self.lines.append("base " + kind)

    def embfile(self, rel, data):
        self.lines.append("embfile %s %s" % (hexs("/" + rel), hexs(data)))

    def fs(self, *toks):
        self.lines.append("fs " + " ".join(str(t) for t in toks))
        self.nfs += 1
        return self.nfs - 1

    def op(self, *toks):
        self.lines.append("op " + " ".join(str(t) for t in toks))
        self.ops.append(" ".join(str(t) for t in toks))
        self.nops += 1
        return self.nops - 1

    def text(self):
        return "\n".join(self.lines + ["end"]) + "\n"


def digest(s):
    return hashlib.sha1(s.encode()).hexdigest()[:12]


# ---------------------------------------------------------------------------------- evidence

def write_evidence(prop, tier, seed, coverage, wall, violations, assumptions):
    os.makedirs(os.path.join(ROOT, "evidence"), exist_ok=True)
    ev = {
        "property_id": prop, "tier": tier, "seed": seed, "level": "proof",
        "coverage": coverage, "assumptions": assumptions, "wall_s": round(wall, 2),
        "violations": violations,
    }
    with open(os.path.join(ROOT, "evidence", prop + ".json"), "w") as f:
        json.dump(ev, f, indent=1, sort_keys=True)
