//! vfsx: runs case files against the real `vfs` crate (path dependency on /repo) and prints
//! one canonical observation line per op, in the same format as the extracted Coq model.
mod asyncrun;
mod conc;
mod fmt;
mod wrappers;

use fmt::*;
use std::collections::{HashMap, HashSet};
use std::io::{BufRead, Read, Seek, SeekFrom, Write};
use std::panic::{catch_unwind, AssertUnwindSafe};
use std::path::PathBuf;
use std::sync::{Arc, Mutex};
use vfs::{
    AltrootFS, EmbeddedFS, FileSystem, MemoryFS, OverlayFS, PhysicalFS, SeekAndRead, SeekAndWrite,
    VfsError, VfsFileType, VfsPath, VfsResult,
};
use wrappers::{HarnessFS, Shared};

#[derive(rust_embed::RustEmbed, Debug, Default)]
#[folder = "fixtures/emb1"]
struct Emb1;

#[derive(rust_embed::RustEmbed, Debug)]
#[folder = "fixtures/empty"]
struct EmbEmpty;

pub enum Handle {
    R(Box<dyn SeekAndRead + Send>),
    W(Box<dyn SeekAndWrite + Send>),
}

pub struct Case {
    pub name: String,
    pub bases: Vec<Option<Box<dyn FileSystem>>>,
    pub tmpdirs: Vec<PathBuf>,
    pub embfiles: Vec<(String, Vec<u8>)>,
    /// building the configuration panicked: every operation of the case is reported as a panic
    pub dead: bool,
    pub roots: Vec<VfsPath>,
    pub handles: HashMap<usize, Handle>,
    pub set_times: HashSet<i128>,
    pub shared: Arc<Mutex<Shared>>,
    pub nops: usize,
    pub sort: bool,
}

static COUNTER: std::sync::atomic::AtomicUsize = std::sync::atomic::AtomicUsize::new(0);

impl Case {
    pub fn new(name: &str, sort: bool) -> Case {
        Case {
            name: name.to_string(),
            bases: vec![],
            tmpdirs: vec![],
            embfiles: vec![],
            dead: false,
            roots: vec![],
            handles: HashMap::new(),
            set_times: HashSet::new(),
            shared: Arc::new(Mutex::new(Shared::default())),
            nops: 0,
            sort,
        }
    }
    /// every instance k is wrapped: listings sorted (unless --unsorted), calls recorded with id k
    pub fn wrap(&self, inner: Box<dyn FileSystem>) -> VfsPath {
        VfsPath::new(HarnessFS {
            inner,
            sort: self.sort,
            wrap_id: Some(self.roots.len()),
            shared: self.shared.clone(),
        })
    }
    pub fn path_of(&self, j: usize, hexpath: &str) -> VfsPath {
        let s = String::from_utf8(unhex(hexpath)).unwrap();
        if s.is_empty() {
            self.roots[j].clone()
        } else {
            self.roots[j].join(&s[1..]).unwrap()
        }
    }
    fn locate(&self, spec: &str) -> VfsResult<VfsPath> {
        let mut it = spec.splitn(2, ':');
        let k: usize = it.next().unwrap().parse().unwrap();
        let steps = it.next().unwrap_or("");
        let mut p = self.roots[k].clone();
        if !steps.is_empty() {
            for st in steps.split(',') {
                if st == "p" {
                    p = p.parent();
                } else if st == "r" {
                    p = p.root();
                } else {
                    let arg = unhex(&st[1..]);
                    // arguments are generated as valid UTF-8
                    let arg = String::from_utf8(arg).unwrap();
                    p = p.join(&arg)?;
                }
            }
        }
        Ok(p)
    }
    pub fn cleanup(&mut self) {
        self.handles.clear();
        self.roots.clear();
        self.bases.clear();
        for d in self.tmpdirs.drain(..) {
            let _ = std::fs::remove_dir_all(&d);
        }
    }
}

fn res_s<T>(r: &VfsResult<T>, f: impl Fn(&T) -> String) -> String {
    match r {
        Ok(v) => format!("ok:{}", f(v)),
        Err(e) => format!("err:{}", err_s(e)),
    }
}
fn io_res_s<T>(r: &std::io::Result<T>, f: impl Fn(&T) -> String) -> String {
    match r {
        Ok(v) => format!("ok:{}", f(v)),
        Err(_) => "err:Io:U".to_string(),
    }
}
fn bool_s(b: &bool) -> String {
    format!("bool:{}", if *b { 1 } else { 0 })
}
fn paths_s(l: &Vec<VfsPath>) -> String {
    format!(
        "paths:{}",
        l.iter().map(|p| hex(p.as_str().as_bytes())).collect::<Vec<_>>().join(",")
    )
}
fn bytes_s(b: &Vec<u8>) -> String {
    format!("bytes:{}", hex(b))
}
fn unit_s(_: &()) -> String {
    "unit".to_string()
}

fn read_all(p: &VfsPath) -> VfsResult<Vec<u8>> {
    let mut h = p.open_file()?;
    let mut v = vec![];
    match h.read_to_end(&mut v) {
        Ok(_) => Ok(v),
        Err(e) => Err(VfsError::from(e)),
    }
}
fn read_all_s(r: &VfsResult<Vec<u8>>) -> String {
    match r {
        Ok(v) => format!("ok:{}", bytes_s(v)),
        // a failing read_to_end has no path of its own
        Err(e) if e.path() == "PATH NOT FILLED BY VFS LAYER" => "err:Io:U".to_string(),
        Err(e) => format!("err:{}", err_s(e)),
    }
}

fn list_sorted(p: &VfsPath) -> VfsResult<Vec<VfsPath>> {
    Ok(p.read_dir()?.collect())
}

fn snap_dir(p: &VfsPath, set: &HashSet<i128>, out: &mut Vec<String>, depth: usize) {
    snap_dir_gen(true, p, set, out, depth)
}

fn snap_dir_gen(reads: bool, p: &VfsPath, set: &HashSet<i128>, out: &mut Vec<String>, depth: usize) {
    if depth > 380 {
        out.push(format!("{};err:MODEL-STUCK:U;-;-", hex(p.as_str().as_bytes())));
        return;
    }
    match list_sorted(p) {
        Ok(children) => {
            for c in children {
                let md = c.metadata();
                let hp = hex(c.as_str().as_bytes());
                match &md {
                    Ok(m) => match m.file_type {
                        VfsFileType::File => {
                            if reads {
                                let bs = read_all(&c);
                                out.push(format!("{};{};{};-", hp, res_s(&md, |m| meta_s(m, set)), read_all_s(&bs)));
                            } else {
                                out.push(format!("{};{};-;-", hp, res_s(&md, |m| meta_s(m, set))));
                            }
                        }
                        VfsFileType::Directory => {
                            out.push(format!("{};{};-;-", hp, res_s(&md, |m| meta_s(m, set))));
                            snap_dir_gen(reads, &c, set, out, depth + 1);
                        }
                    },
                    Err(_) => out.push(format!("{};{};-;-", hp, res_s(&md, |m| meta_s(m, set)))),
                }
            }
        }
        Err(e) => out.push(format!(
            "{};err:{};-;{}",
            hex(p.as_str().as_bytes()),
            err_s(&e),
            err_s(&e)
        )),
    }
}

pub fn run_op(c: &mut Case, idx: usize, toks: &[&str]) -> String {
    let set = c.set_times.clone();
    let t = |s: &str| -> i128 { s.parse().unwrap() };
    macro_rules! on {
        ($spec:expr, $f:expr) => {
            match c.locate($spec) {
                Ok(p) => $f(p),
                Err(e) => format!("err:{}", err_s(&e)),
            }
        };
    }
    macro_rules! on2 {
        ($a:expr, $b:expr, $f:expr) => {
            match (c.locate($a), c.locate($b)) {
                (Ok(p), Ok(q)) => $f(p, q),
                (Err(e), _) => format!("err:{}", err_s(&e)),
                (_, Err(e)) => format!("err:{}", err_s(&e)),
            }
        };
    }
    match toks {
        ["asstr", p] => on!(p, |p: VfsPath| format!("ok:str:{}", hex(p.as_str().as_bytes()))),
        ["filename", p] => on!(p, |p: VfsPath| format!("ok:str:{}", hex(p.filename().as_bytes()))),
        ["extension", p] => on!(p, |p: VfsPath| match p.extension() {
            None => "ok:optstr:none".to_string(),
            Some(e) => format!("ok:optstr:{}", hex(e.as_bytes())),
        }),
        ["isroot", p] => on!(p, |p: VfsPath| format!("ok:{}", bool_s(&p.is_root()))),
        // VfsPath == VfsPath (C06: the same filesystem instance and the same canonical string)
        ["eq", p, q] => on2!(p, q, |p: VfsPath, q: VfsPath| format!("ok:{}", bool_s(&(p == q)))),
        ["exists", p] => on!(p, |p: VfsPath| res_s(&p.exists(), bool_s)),
        ["metadata", p] => on!(p, |p: VfsPath| res_s(&p.metadata(), |m| meta_s(m, &set))),
        ["isfile", p] => on!(p, |p: VfsPath| res_s(&p.is_file(), bool_s)),
        ["isdir", p] => on!(p, |p: VfsPath| res_s(&p.is_dir(), bool_s)),
        ["readdir", p] => on!(p, |p: VfsPath| res_s(&list_sorted(&p), paths_s)),
        ["createdir", p] => on!(p, |p: VfsPath| res_s(&p.create_dir(), unit_s)),
        ["createdirall", p] => on!(p, |p: VfsPath| res_s(&p.create_dir_all(), unit_s)),
        ["removefile", p] => on!(p, |p: VfsPath| res_s(&p.remove_file(), unit_s)),
        ["removedir", p] => on!(p, |p: VfsPath| res_s(&p.remove_dir(), unit_s)),
        ["removedirall", p] => on!(p, |p: VfsPath| res_s(&p.remove_dir_all(), unit_s)),
        ["setctime", p, ns] => {
            c.set_times.insert(t(ns));
            on!(p, |p: VfsPath| res_s(&p.set_creation_time(time_from_ns(t(ns))), unit_s))
        }
        ["setmtime", p, ns] => {
            c.set_times.insert(t(ns));
            on!(p, |p: VfsPath| res_s(&p.set_modification_time(time_from_ns(t(ns))), unit_s))
        }
        // a setter called with exactly the value metadata() reports for that field (a request that changes nothing)
        ["setsame", field, p] => on!(p, |p: VfsPath| match p.metadata() {
            Err(e) => format!("err:{}", err_s(&e)),
            Ok(m) => {
                let cur = match *field { "c" => m.created, "m" => m.modified, _ => m.accessed };
                match cur {
                    None => "ok:optstr:none".to_string(),
                    Some(tm) => res_s(
                        &match *field {
                            "c" => p.set_creation_time(tm),
                            "m" => p.set_modification_time(tm),
                            _ => p.set_access_time(tm),
                        },
                        unit_s,
                    ),
                }
            }
        }),
        ["setatime", p, ns] => {
            c.set_times.insert(t(ns));
            on!(p, |p: VfsPath| res_s(&p.set_access_time(time_from_ns(t(ns))), unit_s))
        }
        ["readtostring", p] => on!(p, |p: VfsPath| res_s(&p.read_to_string(), |s| bytes_s(&s.as_bytes().to_vec()))),
        ["copyfile", p, q] => on2!(p, q, |p: VfsPath, q: VfsPath| res_s(&p.copy_file(&q), unit_s)),
        ["movefile", p, q] => on2!(p, q, |p: VfsPath, q: VfsPath| res_s(&p.move_file(&q), unit_s)),
        ["copydir", p, q] => on2!(p, q, |p: VfsPath, q: VfsPath| res_s(&p.copy_dir(&q), |n| format!("n:{}", n))),
        ["movedir", p, q] => on2!(p, q, |p: VfsPath, q: VfsPath| res_s(&p.move_dir(&q), unit_s)),
        ["walkdir", p] => on!(p, |p: VfsPath| match p.walk_dir() {
            Err(e) => format!("err:{}", err_s(&e)),
            Ok(it) => {
                let mut items = vec![];
                for (i, x) in it.enumerate() {
                    if i > 100000 {
                        items.push("eMODEL-STUCK@U".to_string());
                        break;
                    }
                    match x {
                        Ok(q) => items.push(format!("o{}", hex(q.as_str().as_bytes()))),
                        Err(e) => items.push(format!("e{}@{}", kind_s(e.kind()), epath_s(e.path()))),
                    }
                }
                format!("ok:items:{}", items.join(","))
            }
        }),
        // walk p, take k items, remove q (as a file, else as a tree) behind the iterator's back, drain the rest
        ["walkrm", p, k, q] => on2!(p, q, |p: VfsPath, q: VfsPath| match p.walk_dir() {
            Err(e) => format!("err:{}", err_s(&e)),
            Ok(mut it) => {
                let k: usize = k.parse().unwrap();
                let mut items = vec![];
                let mut push = |x: vfs::VfsResult<VfsPath>| match x {
                    Ok(q) => items.push(format!("o{}", hex(q.as_str().as_bytes()))),
                    Err(e) => items.push(format!("e{}@{}", kind_s(e.kind()), epath_s(e.path()))),
                };
                for _ in 0..k {
                    match it.next() {
                        Some(x) => push(x),
                        None => break,
                    }
                }
                if q.remove_file().is_err() {
                    let _ = q.remove_dir_all();
                }
                let mut n = 0;
                for x in it {
                    n += 1;
                    if n > 100000 {
                        break;
                    }
                    push(x);
                }
                format!("ok:items:{}", items.join(","))
            }
        }),
        ["probe", p] => on!(p, |p: VfsPath| {
            let ex = p.exists();
            let md = p.metadata();
            let isf = p.is_file();
            let isd = p.is_dir();
            let ls = list_sorted(&p);
            let rd = read_all(&p);
            format!(
                "ok:probe:{};{};{};{};{};{}",
                res_s(&ex, bool_s),
                res_s(&md, |m| meta_s(m, &set)),
                res_s(&isf, bool_s),
                res_s(&isd, bool_s),
                res_s(&ls, paths_s),
                read_all_s(&rd)
            )
        }),
        ["snap", k] => {
            let root = c.roots[k.parse::<usize>().unwrap()].clone();
            let mut out = vec![];
            let md = root.metadata();
            out.push(format!("-;{};-;-", res_s(&md, |m| meta_s(m, &set))));
            snap_dir(&root, &set, &mut out, 0);
            format!("ok:snap:{}", out.join("|"))
        }
        ["tree", k] => {
            let root = c.roots[k.parse::<usize>().unwrap()].clone();
            let mut out = vec![];
            let md = root.metadata();
            out.push(format!("-;{};-;-", res_s(&md, |m| meta_s(m, &set))));
            snap_dir_gen(false, &root, &set, &mut out, 0);
            format!("ok:snap:{}", out.join("|"))
        }
        ["createfile", p] => match c.locate(p).and_then(|p| p.create_file()) {
            Ok(h) => {
                c.handles.insert(idx, Handle::W(h));
                "ok:unit".to_string()
            }
            Err(e) => format!("err:{}", err_s(&e)),
        },
        ["appendfile", p] => match c.locate(p).and_then(|p| p.append_file()) {
            Ok(h) => {
                c.handles.insert(idx, Handle::W(h));
                "ok:unit".to_string()
            }
            Err(e) => format!("err:{}", err_s(&e)),
        },
        ["openfile", p] => match c.locate(p).and_then(|p| p.open_file()) {
            Ok(h) => {
                c.handles.insert(idx, Handle::R(h));
                "ok:unit".to_string()
            }
            Err(e) => format!("err:{}", err_s(&e)),
        },
        ["hread", r, n] => {
            let n: usize = n.parse().unwrap();
            match c.handles.get_mut(&r.parse::<usize>().unwrap()) {
                Some(Handle::R(h)) => {
                    let mut buf = vec![0u8; n];
                    let r = h.read(&mut buf).map(|k| buf[..k].to_vec());
                    io_res_s(&r, bytes_s)
                }
                _ => "err:MODEL-STUCK:U".to_string(),
            }
        }
        // read until n bytes have arrived or the end is reached (chunking of single reads is not compared)
        ["hreadn", r, n] => {
            let n: usize = n.parse().unwrap();
            match c.handles.get_mut(&r.parse::<usize>().unwrap()) {
                Some(Handle::R(h)) => {
                    let mut buf = vec![0u8; n];
                    let mut got = 0;
                    let mut res = Ok(());
                    while got < n {
                        match h.read(&mut buf[got..]) {
                            Ok(0) => break,
                            Ok(k) => got += k,
                            Err(e) => { res = Err(e); break; }
                        }
                    }
                    io_res_s(&res.map(|_| buf[..got].to_vec()), bytes_s)
                }
                _ => "err:MODEL-STUCK:U".to_string(),
            }
        }
        ["hseek", r, w, o] => {
            let sf = match *w {
                "s" => SeekFrom::Start(o.parse::<u64>().unwrap()),
                "c" => SeekFrom::Current(o.parse::<i64>().unwrap()),
                _ => SeekFrom::End(o.parse::<i64>().unwrap()),
            };
            let r = match c.handles.get_mut(&r.parse::<usize>().unwrap()) {
                Some(Handle::R(h)) => h.seek(sf),
                Some(Handle::W(h)) => h.seek(sf),
                None => return "err:MODEL-STUCK:U".to_string(),
            };
            io_res_s(&r, |p| format!("z:{}", p))
        }
        ["hwrite", r, h] => {
            let data = unhex(h);
            match c.handles.get_mut(&r.parse::<usize>().unwrap()) {
                Some(Handle::W(w)) => io_res_s(&w.write_all(&data), |_| format!("n:{}", data.len())),
                _ => "err:MODEL-STUCK:U".to_string(),
            }
        }
        ["hflush", r] => match c.handles.get_mut(&r.parse::<usize>().unwrap()) {
            Some(Handle::W(w)) => io_res_s(&w.flush(), unit_s),
            _ => "err:MODEL-STUCK:U".to_string(),
        },
        ["hdrop", r] => match c.handles.remove(&r.parse::<usize>().unwrap()) {
            Some(_) => "ok:unit".to_string(),
            None => "err:MODEL-STUCK:U".to_string(),
        },
        // the handle is dropped while its owner unwinds from a panic (a scope that panics with the handle open)
        ["hdropunwind", r] => match c.handles.remove(&r.parse::<usize>().unwrap()) {
            Some(h) => {
                let _ = std::panic::catch_unwind(std::panic::AssertUnwindSafe(move || {
                    let _guard = h;
                    panic!("unwinding with an open handle");
                }));
                "ok:unit".to_string()
            }
            None => "err:MODEL-STUCK:U".to_string(),
        },
        ["hreadtoend", r] => match c.handles.get_mut(&r.parse::<usize>().unwrap()) {
            Some(Handle::R(h)) => {
                let mut v = vec![];
                let r = h.read_to_end(&mut v).map(|_| v);
                io_res_s(&r, bytes_s)
            }
            _ => "err:MODEL-STUCK:U".to_string(),
        },
        ["xrawname", b, name] => {
            // a directory entry whose name is arbitrary bytes (not necessarily UTF-8), made behind the crate's back
            use std::os::unix::ffi::OsStringExt;
            let d = c.tmpdirs[b.parse::<usize>().unwrap()].clone();
            let f = d.join(std::ffi::OsString::from_vec(unhex(name)));
            let _ = std::fs::write(f, b"raw");
            "ok:unit".to_string()
        }
        ["xsymlink", b, name, target] => {
            let d = c.tmpdirs[b.parse::<usize>().unwrap()].clone();
            let n = String::from_utf8(unhex(name)).unwrap();
            let t = String::from_utf8(unhex(target)).unwrap();
            let _ = std::os::unix::fs::symlink(t, d.join(n));
            "ok:unit".to_string()
        }
        // a Unix socket: a directory entry that is neither a regular file nor a directory (nor a symlink)
        ["xsocket", b, name] => {
            let d = c.tmpdirs[b.parse::<usize>().unwrap()].clone();
            let n = String::from_utf8(unhex(name)).unwrap();
            let _ = std::os::unix::net::UnixListener::bind(d.join(n));
            "ok:unit".to_string()
        }
        ["setfault", id, k] => {
            c.shared.lock().unwrap().fault = Some((id.parse().unwrap(), k.parse().unwrap()));
            "ok:unit".to_string()
        }
        ["xclose", _r] => "ok:unit".to_string(),
        ["setiofault", mode] => {
            c.shared.lock().unwrap().io_fault = match *mode {
                "r" => 1,
                "w" => 2,
                _ => 3,
            };
            "ok:unit".to_string()
        }
        ["clearlog"] => {
            let mut sh = c.shared.lock().unwrap();
            sh.log.clear();
            sh.fault = None;
            sh.io_fault = 0;
            "ok:unit".to_string()
        }
        _ => panic!("bad op {:?}", toks),
    }
}

/// handle one `base ...` / `fs ...` line of a case; returns false if the line is something else
pub fn config_line(cur: &mut Case, toks: &[&str]) -> bool {
    match toks {
        ["base", "mem"] => cur.bases.push(Some(Box::new(MemoryFS::new()))),
        ["base", "phys"] => {
            let n = COUNTER.fetch_add(1, std::sync::atomic::Ordering::SeqCst);
            let d = std::env::temp_dir().join(format!("vfsx_{}_{}", std::process::id(), n));
            let _ = std::fs::remove_dir_all(&d);
            std::fs::create_dir_all(&d).unwrap();
            cur.bases.push(Some(Box::new(PhysicalFS::new(&d))));
            cur.tmpdirs.push(d);
        }
        // a directory found on disk whose files are all reached through symbolic links (their targets live outside
        // the served root): every call follows them, so the filesystem behaves as if the files were there
        ["embfile", p, b] => cur.embfiles.push((String::from_utf8(unhex(p)).unwrap(), unhex(b))),
        ["base", "physlnk"] => {
            let n = COUNTER.fetch_add(1, std::sync::atomic::Ordering::SeqCst);
            let d = std::env::temp_dir().join(format!("vfsx_{}_{}", std::process::id(), n));
            let hidden = std::env::temp_dir().join(format!("vfsx_{}_{}_targets", std::process::id(), n));
            for x in [&d, &hidden] {
                let _ = std::fs::remove_dir_all(x);
                std::fs::create_dir_all(x).unwrap();
            }
            for (i, (rel, data)) in cur.embfiles.drain(..).enumerate() {
                let at = d.join(rel.trim_start_matches('/'));
                std::fs::create_dir_all(at.parent().unwrap()).unwrap();
                let target = hidden.join(format!("t{}", i));
                std::fs::write(&target, data).unwrap();
                std::os::unix::fs::symlink(&target, &at).unwrap();
            }
            cur.bases.push(Some(Box::new(PhysicalFS::new(&d))));
            cur.tmpdirs.push(d);
            cur.tmpdirs.push(hidden);
        }
        ["fs", "base", i] => {
            let b = cur.bases[i.parse::<usize>().unwrap()].take().expect("base used twice");
            let r = cur.wrap(b);
            cur.roots.push(r);
        }
        // a user filesystem without state (a zero-sized type), handed to VfsPath::new as it is: NOT wrapped
        ["fs", "unit", i] => {
            let _ = cur.bases[i.parse::<usize>().unwrap()].take();
            cur.roots.push(VfsPath::new(wrappers::UnitFS));
        }
        ["fs", "alt", j, p] => {
            let root = cur.path_of(j.parse().unwrap(), p);
            let r = cur.wrap(Box::new(AltrootFS::new(root)));
            cur.roots.push(r);
        }
        ["fs", "ovl", _n, rest @ ..] => {
            let mut layers = vec![];
            for ch in rest.chunks(2) {
                layers.push(cur.path_of(ch[0].parse().unwrap(), ch[1]));
            }
            let r = cur.wrap(Box::new(OverlayFS::new(&layers)));
            cur.roots.push(r);
        }
        _ => return false,
    }
    true
}

fn main() {
    let args: Vec<String> = std::env::args().collect();
    let mut file = None;
    let mut sort = true;
    if args.len() > 2 && args[1] == "--aconc" {
        asyncrun::main_conc(&args[2]);
        return;
    }
    if args.len() > 2 && args[1] == "--async" {
        asyncrun::main(&args[2], args.iter().any(|a| a == "--pending"), !args.iter().any(|a| a == "--no-tokio"));
        return;
    }
    if args.len() > 2 && args[1] == "--conc" {
        conc::main(&args[2]);
        return;
    }
    for a in &args[1..] {
        if a == "--unsorted" {
            sort = false;
        } else {
            file = Some(a.clone());
        }
    }
    std::panic::set_hook(Box::new(|_| {}));
    let input: Box<dyn BufRead> = match file {
        Some(f) => Box::new(std::io::BufReader::new(std::fs::File::open(f).unwrap())),
        None => Box::new(std::io::BufReader::new(std::io::stdin())),
    };
    let stdout = std::io::stdout();
    let mut out = std::io::BufWriter::new(stdout.lock());
    let mut cur = Case::new("", sort);
    for line in input.lines() {
        let line = line.unwrap();
        let line = line.trim();
        if line.is_empty() || line.starts_with('#') {
            continue;
        }
        let toks: Vec<&str> = line.split(' ').collect();
        match toks.as_slice() {
            ["case", n] => {
                cur.cleanup();
                cur = Case::new(n, sort);
            }
            ["base", "emb"] => {
                cur.embfiles.clear();
                cur.bases.push(Some(Box::new(EmbeddedFS::<Emb1>::new())))
            }
            // the other public constructor
            ["base", "embd"] => {
                cur.embfiles.clear();
                cur.bases.push(Some(Box::new(<EmbeddedFS<Emb1> as Default>::default())))
            }
            ["base", "physfix"] => {
                cur.embfiles.clear();
                let d = PathBuf::from(concat!(env!("CARGO_MANIFEST_DIR"), "/fixtures/emb1"));
                cur.bases.push(Some(Box::new(PhysicalFS::new(&d))));
            }
            ["base", "embempty"] => cur.bases.push(Some(Box::new(EmbeddedFS::<EmbEmpty>::new()))),
            ["fuel", _] => {}
            t if {
                match catch_unwind(AssertUnwindSafe(|| config_line(&mut cur, t))) {
                    Ok(b) => b,
                    Err(_) => {
                        cur.dead = true;
                        true
                    }
                }
            } => {}
            ["op", rest @ ..] => {
                let idx = cur.nops;
                cur.nops += 1;
                cur.shared.lock().unwrap().log.clear();
                let r = if cur.dead { Err(Box::new(()) as Box<dyn std::any::Any + Send>) } else { catch_unwind(AssertUnwindSafe(|| run_op(&mut cur, idx, rest))) };
                let s = match r {
                    Ok(s) => s,
                    Err(_) => "panic".to_string(),
                };
                writeln!(out, "r {} {} {}", cur.name, idx, s).unwrap();
                let sh = cur.shared.lock().unwrap();
                if !sh.log.is_empty() {
                    let items: Vec<String> = sh
                        .log
                        .iter()
                        .map(|(id, m, p, q)| match q {
                            None => format!("{}:{}:{}", id, m, hex(p.as_bytes())),
                            Some(q) => format!("{}:{}:{}:{}", id, m, hex(p.as_bytes()), hex(q.as_bytes())),
                        })
                        .collect();
                    writeln!(out, "l {} {} {}", cur.name, idx, items.join(" ")).unwrap();
                }
            }
            ["end"] => {
                cur.cleanup();
            }
            _ => panic!("bad line {}", line),
        }
    }
    cur.cleanup();
}
