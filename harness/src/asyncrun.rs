//! The same case files run against the async port (`vfs::async_vfs`) on a single-threaded executor.
//! Every instance is wrapped in `AsyncHarnessFS`: sorted listings, call log, fault injection and - with
//! `--pending` - a deterministic number of `Poll::Pending`s before every trait call completes.
use crate::fmt::*;
use crate::wrappers::Shared;
use async_std::io::prelude::*;
use async_trait::async_trait;
use futures::stream::{Stream, StreamExt};
use std::collections::{HashMap, HashSet};
use std::future::Future;
use std::io::SeekFrom;
use std::path::PathBuf;
use std::pin::Pin;
use std::sync::atomic::{AtomicUsize, Ordering};
use std::sync::{Arc, Mutex};
use std::task::{Context, Poll};
use std::time::SystemTime;
use vfs::async_vfs::{
    AsyncAltrootFS, AsyncFileSystem, AsyncMemoryFS, AsyncOverlayFS, AsyncPhysicalFS, AsyncVfsPath, SeekAndRead,
};
use vfs::error::VfsErrorKind;
use vfs::{VfsFileType, VfsMetadata, VfsResult};

/// returns Pending (waking itself) n times, then Ready
struct YieldN(usize);
impl Future for YieldN {
    type Output = ();
    fn poll(mut self: Pin<&mut Self>, cx: &mut Context<'_>) -> Poll<()> {
        if self.0 == 0 {
            Poll::Ready(())
        } else {
            self.0 -= 1;
            cx.waker().wake_by_ref();
            Poll::Pending
        }
    }
}

/// a listing whose items each arrive after a deterministic number of `Poll::Pending`s
struct PendingStream {
    items: std::vec::IntoIter<String>,
    k: usize,
    left: usize,
}
impl Stream for PendingStream {
    type Item = String;
    fn poll_next(mut self: Pin<&mut Self>, cx: &mut Context<'_>) -> Poll<Option<String>> {
        if self.left > 0 {
            self.left -= 1;
            cx.waker().wake_by_ref();
            return Poll::Pending;
        }
        self.k += 1;
        self.left = (self.k * 5) % 3;
        Poll::Ready(self.items.next())
    }
}

#[derive(Debug)]
struct AsyncHarnessFS {
    inner: Box<dyn AsyncFileSystem>,
    sort: bool,
    wrap_id: usize,
    shared: Arc<Mutex<Shared>>,
    pending: bool,
    counter: AtomicUsize,
}

/// cooperative task scheduler (`--aconc`): every trait call through a wrapper first waits at a gate until the
/// scheduler grants its task one step; tasks are polled by hand, one at a time, so a step is exactly one trait call
struct ASched {
    cur: usize,
    granted: Vec<bool>,
    at_gate: Vec<Option<String>>,
}
thread_local! {
    static SCHED: std::cell::RefCell<Option<ASched>> = std::cell::RefCell::new(None);
}
struct Gate(String);
impl Future for Gate {
    type Output = ();
    fn poll(self: Pin<&mut Self>, _cx: &mut Context<'_>) -> Poll<()> {
        SCHED.with(|s| {
            let mut s = s.borrow_mut();
            match s.as_mut() {
                None => Poll::Ready(()),
                Some(sc) => {
                    let t = sc.cur;
                    if sc.granted[t] {
                        sc.granted[t] = false;
                        sc.at_gate[t] = None;
                        Poll::Ready(())
                    } else {
                        sc.at_gate[t] = Some(self.0.clone());
                        Poll::Pending
                    }
                }
            }
        })
    }
}

impl AsyncHarnessFS {
    async fn enter(&self, method: &'static str, p: &str, q: Option<&str>) -> VfsResult<()> {
        Gate(format!("{}:{}", self.wrap_id, method)).await;
        if self.pending {
            let c = self.counter.fetch_add(1, Ordering::SeqCst);
            YieldN((c * 7 + self.wrap_id * 3 + p.len()) % 4).await;
        }
        let mut sh = self.shared.lock().unwrap();
        sh.log.push((self.wrap_id, method, p.to_string(), q.map(|s| s.to_string())));
        if let Some((fid, k)) = sh.fault {
            if fid == self.wrap_id {
                if k == 0 {
                    sh.fault = None;
                    return Err(VfsErrorKind::IoError(std::io::Error::new(std::io::ErrorKind::Other, "injected fault")).into());
                }
                sh.fault = Some((fid, k - 1));
            }
        }
        Ok(())
    }
}

#[async_trait]
impl AsyncFileSystem for AsyncHarnessFS {
    async fn read_dir(&self, path: &str) -> VfsResult<Box<dyn Unpin + Stream<Item = String> + Send>> {
        self.enter("read_dir", path, None).await?;
        let it = self.inner.read_dir(path).await?;
        if self.sort {
            let mut v: Vec<String> = it.collect().await;
            v.sort_by(|a, b| a.as_bytes().cmp(b.as_bytes()));
            if self.pending {
                let c = self.counter.load(Ordering::SeqCst);
                Ok(Box::new(PendingStream { items: v.into_iter(), k: c, left: c % 3 }))
            } else {
                Ok(Box::new(futures::stream::iter(v)))
            }
        } else {
            Ok(it)
        }
    }
    async fn create_dir(&self, path: &str) -> VfsResult<()> {
        self.enter("create_dir", path, None).await?;
        self.inner.create_dir(path).await
    }
    async fn open_file(&self, path: &str) -> VfsResult<Box<dyn SeekAndRead + Send + Unpin>> {
        self.enter("open_file", path, None).await?;
        self.inner.open_file(path).await
    }
    async fn create_file(&self, path: &str) -> VfsResult<Box<dyn Write + Send + Unpin>> {
        self.enter("create_file", path, None).await?;
        self.inner.create_file(path).await
    }
    async fn append_file(&self, path: &str) -> VfsResult<Box<dyn Write + Send + Unpin>> {
        self.enter("append_file", path, None).await?;
        self.inner.append_file(path).await
    }
    async fn metadata(&self, path: &str) -> VfsResult<VfsMetadata> {
        self.enter("metadata", path, None).await?;
        self.inner.metadata(path).await
    }
    async fn set_creation_time(&self, path: &str, time: SystemTime) -> VfsResult<()> {
        self.enter("set_creation_time", path, None).await?;
        self.inner.set_creation_time(path, time).await
    }
    async fn set_modification_time(&self, path: &str, time: SystemTime) -> VfsResult<()> {
        self.enter("set_modification_time", path, None).await?;
        self.inner.set_modification_time(path, time).await
    }
    async fn set_access_time(&self, path: &str, time: SystemTime) -> VfsResult<()> {
        self.enter("set_access_time", path, None).await?;
        self.inner.set_access_time(path, time).await
    }
    async fn exists(&self, path: &str) -> VfsResult<bool> {
        self.enter("exists", path, None).await?;
        self.inner.exists(path).await
    }
    async fn remove_file(&self, path: &str) -> VfsResult<()> {
        self.enter("remove_file", path, None).await?;
        self.inner.remove_file(path).await
    }
    async fn remove_dir(&self, path: &str) -> VfsResult<()> {
        self.enter("remove_dir", path, None).await?;
        self.inner.remove_dir(path).await
    }
    async fn copy_file(&self, src: &str, dest: &str) -> VfsResult<()> {
        self.enter("copy_file", src, Some(dest)).await?;
        self.inner.copy_file(src, dest).await
    }
    async fn move_file(&self, src: &str, dest: &str) -> VfsResult<()> {
        self.enter("move_file", src, Some(dest)).await?;
        self.inner.move_file(src, dest).await
    }
    async fn move_dir(&self, src: &str, dest: &str) -> VfsResult<()> {
        self.enter("move_dir", src, Some(dest)).await?;
        self.inner.move_dir(src, dest).await
    }
}

enum AHandle {
    R(Box<dyn SeekAndRead + Send + Unpin>),
    W(Box<dyn Write + Send + Unpin>),
}

struct ACase {
    name: String,
    bases: Vec<Option<Box<dyn AsyncFileSystem>>>,
    tmpdirs: Vec<PathBuf>,
    roots: Vec<AsyncVfsPath>,
    handles: HashMap<usize, AHandle>,
    set_times: HashSet<i128>,
    shared: Arc<Mutex<Shared>>,
    nops: usize,
    pending: bool,
}

static COUNTER: AtomicUsize = AtomicUsize::new(0);

impl ACase {
    fn new(name: &str, pending: bool) -> ACase {
        ACase { name: name.to_string(), bases: vec![], tmpdirs: vec![], roots: vec![], handles: HashMap::new(),
                set_times: HashSet::new(), shared: Arc::new(Mutex::new(Shared::default())), nops: 0, pending }
    }
    fn wrap(&self, inner: Box<dyn AsyncFileSystem>) -> AsyncVfsPath {
        AsyncVfsPath::new(AsyncHarnessFS { inner, sort: true, wrap_id: self.roots.len(), shared: self.shared.clone(),
                                           pending: self.pending, counter: AtomicUsize::new(0) })
    }
    fn path_of(&self, j: usize, hexpath: &str) -> AsyncVfsPath {
        let s = String::from_utf8(unhex(hexpath)).unwrap();
        if s.is_empty() { self.roots[j].clone() } else { self.roots[j].join(&s[1..]).unwrap() }
    }
    fn locate(&self, spec: &str) -> VfsResult<AsyncVfsPath> {
        let mut it = spec.splitn(2, ':');
        let k: usize = it.next().unwrap().parse().unwrap();
        let steps = it.next().unwrap_or("");
        let mut p = self.roots[k].clone();
        if !steps.is_empty() {
            for st in steps.split(',') {
                if st == "p" { p = p.parent(); } else if st == "r" { p = p.root(); } else { p = p.join(&String::from_utf8(unhex(&st[1..])).unwrap())?; }
            }
        }
        Ok(p)
    }
    fn cleanup(&mut self) {
        self.handles.clear();
        self.roots.clear();
        self.bases.clear();
        for d in self.tmpdirs.drain(..) { let _ = std::fs::remove_dir_all(&d); }
    }
}

fn res_s<T>(r: &VfsResult<T>, f: impl Fn(&T) -> String) -> String {
    match r { Ok(v) => format!("ok:{}", f(v)), Err(e) => format!("err:{}", err_s(e)) }
}
fn io_res_s<T>(r: &std::io::Result<T>, f: impl Fn(&T) -> String) -> String {
    match r { Ok(v) => format!("ok:{}", f(v)), Err(_) => "err:Io:U".to_string() }
}
fn bool_s(b: &bool) -> String { format!("bool:{}", if *b { 1 } else { 0 }) }
fn unit_s(_: &()) -> String { "unit".to_string() }
fn bytes_s(b: &Vec<u8>) -> String { format!("bytes:{}", hex(b)) }
fn paths_s(l: &Vec<AsyncVfsPath>) -> String {
    format!("paths:{}", l.iter().map(|p| hex(p.as_str().as_bytes())).collect::<Vec<_>>().join(","))
}

async fn read_all(p: &AsyncVfsPath) -> VfsResult<Vec<u8>> {
    let mut h = p.open_file().await?;
    let mut v = vec![];
    match h.read_to_end(&mut v).await { Ok(_) => Ok(v), Err(e) => Err(vfs::VfsError::from(e)) }
}
fn read_all_s(r: &VfsResult<Vec<u8>>) -> String {
    match r {
        Ok(v) => format!("ok:{}", bytes_s(v)),
        Err(e) if e.path() == "PATH NOT FILLED BY VFS LAYER" => "err:Io:U".to_string(),
        Err(e) => format!("err:{}", err_s(e)),
    }
}
async fn list_sorted(p: &AsyncVfsPath) -> VfsResult<Vec<AsyncVfsPath>> {
    Ok(p.read_dir().await?.collect().await)
}

fn snap_dir<'a>(reads: bool, p: AsyncVfsPath, set: &'a HashSet<i128>, out: &'a mut Vec<String>, depth: usize)
    -> Pin<Box<dyn Future<Output = ()> + 'a>> {
    Box::pin(async move {
        if depth > 380 { return; }
        match list_sorted(&p).await {
            Ok(children) => {
                for c in children {
                    let md = c.metadata().await;
                    let hp = hex(c.as_str().as_bytes());
                    match &md {
                        Ok(m) => match m.file_type {
                            VfsFileType::File => {
                                if reads {
                                    let bs = read_all(&c).await;
                                    out.push(format!("{};{};{};-", hp, res_s(&md, |m| meta_s(m, set)), read_all_s(&bs)));
                                } else {
                                    out.push(format!("{};{};-;-", hp, res_s(&md, |m| meta_s(m, set))));
                                }
                            }
                            VfsFileType::Directory => {
                                out.push(format!("{};{};-;-", hp, res_s(&md, |m| meta_s(m, set))));
                                snap_dir(reads, c.clone(), set, out, depth + 1).await;
                            }
                        },
                        Err(_) => out.push(format!("{};{};-;-", hp, res_s(&md, |m| meta_s(m, set)))),
                    }
                }
            }
            Err(e) => out.push(format!("{};err:{};-;{}", hex(p.as_str().as_bytes()), err_s(&e), err_s(&e))),
        }
    })
}

async fn run_op(c: &mut ACase, idx: usize, toks: &[&str]) -> String {
    let set = c.set_times.clone();
    let t = |s: &str| -> i128 { s.parse().unwrap() };
    macro_rules! loc { ($s:expr) => { match c.locate($s) { Ok(p) => p, Err(e) => return format!("err:{}", err_s(&e)) } }; }
    match toks {
        ["asstr", p] => { let p = loc!(p); format!("ok:str:{}", hex(p.as_str().as_bytes())) }
        ["filename", p] => { let p = loc!(p); format!("ok:str:{}", hex(p.filename().as_bytes())) }
        ["extension", p] => { let p = loc!(p); match p.extension() { None => "ok:optstr:none".to_string(), Some(e) => format!("ok:optstr:{}", hex(e.as_bytes())) } }
        ["isroot", p] => { let p = loc!(p); format!("ok:{}", bool_s(&p.is_root())) }
        ["eq", p, q] => { let p = loc!(p); let q = loc!(q); format!("ok:{}", bool_s(&(p == q))) }
        ["exists", p] => { let p = loc!(p); res_s(&p.exists().await, bool_s) }
        ["metadata", p] => { let p = loc!(p); res_s(&p.metadata().await, |m| meta_s(m, &set)) }
        ["isfile", p] => { let p = loc!(p); res_s(&p.is_file().await, bool_s) }
        ["isdir", p] => { let p = loc!(p); res_s(&p.is_dir().await, bool_s) }
        ["readdir", p] => { let p = loc!(p); res_s(&list_sorted(&p).await, paths_s) }
        ["createdir", p] => { let p = loc!(p); res_s(&p.create_dir().await, unit_s) }
        ["createdirall", p] => { let p = loc!(p); res_s(&p.create_dir_all().await, unit_s) }
        ["removefile", p] => { let p = loc!(p); res_s(&p.remove_file().await, unit_s) }
        ["removedir", p] => { let p = loc!(p); res_s(&p.remove_dir().await, unit_s) }
        ["removedirall", p] => { let p = loc!(p); res_s(&p.remove_dir_all().await, unit_s) }
        ["setctime", p, ns] => { c.set_times.insert(t(ns)); let p = loc!(p); res_s(&p.set_creation_time(time_from_ns(t(ns))).await, unit_s) }
        ["setmtime", p, ns] => { c.set_times.insert(t(ns)); let p = loc!(p); res_s(&p.set_modification_time(time_from_ns(t(ns))).await, unit_s) }
        ["setatime", p, ns] => { c.set_times.insert(t(ns)); let p = loc!(p); res_s(&p.set_access_time(time_from_ns(t(ns))).await, unit_s) }
        ["readtostring", p] => { let p = loc!(p); res_s(&p.read_to_string().await, |s| bytes_s(&s.as_bytes().to_vec())) }
        ["copyfile", p, q] => { let p = loc!(p); let q = loc!(q); res_s(&p.copy_file(&q).await, unit_s) }
        ["movefile", p, q] => { let p = loc!(p); let q = loc!(q); res_s(&p.move_file(&q).await, unit_s) }
        ["copydir", p, q] => { let p = loc!(p); let q = loc!(q); res_s(&p.copy_dir(&q).await, |n| format!("n:{}", n)) }
        ["movedir", p, q] => { let p = loc!(p); let q = loc!(q); res_s(&p.move_dir(&q).await, unit_s) }
        ["walkrm", p, k, q] => {
            let p = loc!(p);
            let q = loc!(q);
            match p.walk_dir().await {
                Err(e) => format!("err:{}", err_s(&e)),
                Ok(mut it) => {
                    let k: usize = k.parse().unwrap();
                    let mut items = vec![];
                    let mut push = |x: VfsResult<AsyncVfsPath>| match x {
                        Ok(q) => items.push(format!("o{}", hex(q.as_str().as_bytes()))),
                        Err(e) => items.push(format!("e{}@{}", kind_s(e.kind()), epath_s(e.path()))),
                    };
                    for _ in 0..k {
                        match it.next().await { Some(x) => push(x), None => break }
                    }
                    if q.remove_file().await.is_err() { let _ = q.remove_dir_all().await; }
                    let mut n = 0;
                    while let Some(x) = it.next().await {
                        n += 1;
                        if n > 100000 { break; }
                        push(x);
                    }
                    format!("ok:items:{}", items.join(","))
                }
            }
        }
        ["walkdir", p] => {
            let p = loc!(p);
            match p.walk_dir().await {
                Err(e) => format!("err:{}", err_s(&e)),
                Ok(mut it) => {
                    let mut items = vec![];
                    while let Some(x) = it.next().await {
                        if items.len() > 100000 { break; }
                        match x {
                            Ok(q) => items.push(format!("o{}", hex(q.as_str().as_bytes()))),
                            Err(e) => items.push(format!("e{}@{}", kind_s(e.kind()), epath_s(e.path()))),
                        }
                    }
                    format!("ok:items:{}", items.join(","))
                }
            }
        }
        ["probe", p] => {
            let p = loc!(p);
            let ex = p.exists().await; let md = p.metadata().await; let isf = p.is_file().await; let isd = p.is_dir().await;
            let ls = list_sorted(&p).await; let rd = read_all(&p).await;
            format!("ok:probe:{};{};{};{};{};{}", res_s(&ex, bool_s), res_s(&md, |m| meta_s(m, &set)), res_s(&isf, bool_s),
                    res_s(&isd, bool_s), res_s(&ls, paths_s), read_all_s(&rd))
        }
        ["snap", k] | ["tree", k] => {
            let root = c.roots[k.parse::<usize>().unwrap()].clone();
            let mut out = vec![];
            let md = root.metadata().await;
            out.push(format!("-;{};-;-", res_s(&md, |m| meta_s(m, &set))));
            snap_dir(toks[0] == "snap", root, &set, &mut out, 0).await;
            format!("ok:snap:{}", out.join("|"))
        }
        ["createfile", p] => match c.locate(p) { Err(e) => format!("err:{}", err_s(&e)), Ok(p) => match p.create_file().await {
            Ok(h) => { c.handles.insert(idx, AHandle::W(h)); "ok:unit".to_string() } Err(e) => format!("err:{}", err_s(&e)) } },
        ["appendfile", p] => match c.locate(p) { Err(e) => format!("err:{}", err_s(&e)), Ok(p) => match p.append_file().await {
            Ok(h) => { c.handles.insert(idx, AHandle::W(h)); "ok:unit".to_string() } Err(e) => format!("err:{}", err_s(&e)) } },
        ["openfile", p] => match c.locate(p) { Err(e) => format!("err:{}", err_s(&e)), Ok(p) => match p.open_file().await {
            Ok(h) => { c.handles.insert(idx, AHandle::R(h)); "ok:unit".to_string() } Err(e) => format!("err:{}", err_s(&e)) } },
        ["hread", r, n] => {
            let n: usize = n.parse().unwrap();
            match c.handles.get_mut(&r.parse::<usize>().unwrap()) {
                Some(AHandle::R(h)) => { let mut buf = vec![0u8; n]; let r = h.read(&mut buf).await.map(|k| buf[..k].to_vec()); io_res_s(&r, bytes_s) }
                _ => "err:MODEL-STUCK:U".to_string(),
            }
        }
        ["hreadn", r, n] => {
            let n: usize = n.parse().unwrap();
            match c.handles.get_mut(&r.parse::<usize>().unwrap()) {
                Some(AHandle::R(h)) => {
                    let mut buf = vec![0u8; n];
                    let mut got = 0;
                    let mut res = Ok(());
                    while got < n {
                        match h.read(&mut buf[got..]).await {
                            Ok(0) => break,
                            Ok(k) => got += k,
                            Err(e) => { res = Err(e); break; }
                        }
                    }
                    io_res_s(&res.map(|_| buf[..got].to_vec()), bytes_s)
                }
                _ => "err:MODEL-STUCK:U".to_string(),
            }
        }
        ["hseek", r, w, o] => {
            let sf = match *w { "s" => SeekFrom::Start(o.parse::<u64>().unwrap()), "c" => SeekFrom::Current(o.parse::<i64>().unwrap()), _ => SeekFrom::End(o.parse::<i64>().unwrap()) };
            match c.handles.get_mut(&r.parse::<usize>().unwrap()) {
                Some(AHandle::R(h)) => io_res_s(&h.seek(sf).await, |p| format!("z:{}", p)),
                _ => "err:MODEL-STUCK:U".to_string(),      // async write handles are not seekable
            }
        }
        ["hwrite", r, h] => {
            let data = unhex(h);
            match c.handles.get_mut(&r.parse::<usize>().unwrap()) {
                Some(AHandle::W(w)) => io_res_s(&w.write_all(&data).await, |_| format!("n:{}", data.len())),
                _ => "err:MODEL-STUCK:U".to_string(),
            }
        }
        ["hflush", r] => match c.handles.get_mut(&r.parse::<usize>().unwrap()) {
            Some(AHandle::W(w)) => io_res_s(&w.flush().await, unit_s),
            _ => "err:MODEL-STUCK:U".to_string(),
        },
        // AsyncWrite::close on a write handle that stays in the table (the sync world has no such call: a no-op there)
        ["xclose", r] => match c.handles.get_mut(&r.parse::<usize>().unwrap()) {
            Some(AHandle::W(w)) => io_res_s(&futures::AsyncWriteExt::close(w).await, unit_s),
            _ => "ok:unit".to_string(),
        },
        ["hdrop", r] => match c.handles.remove(&r.parse::<usize>().unwrap()) {
            Some(AHandle::W(mut w)) => { let _ = w.flush().await; drop(w); "ok:unit".to_string() }
            Some(_) => "ok:unit".to_string(),
            None => "err:MODEL-STUCK:U".to_string(),
        },
        ["hreadtoend", r] => match c.handles.get_mut(&r.parse::<usize>().unwrap()) {
            Some(AHandle::R(h)) => { let mut v = vec![]; let r = h.read_to_end(&mut v).await.map(|_| v); io_res_s(&r, bytes_s) }
            _ => "err:MODEL-STUCK:U".to_string(),
        },
        ["setfault", id, k] => { c.shared.lock().unwrap().fault = Some((id.parse().unwrap(), k.parse().unwrap())); "ok:unit".to_string() }
        ["clearlog"] => { let mut sh = c.shared.lock().unwrap(); sh.log.clear(); sh.fault = None; "ok:unit".to_string() }
        ["xrawname", b, name] => {
            use std::os::unix::ffi::OsStringExt;
            let d = c.tmpdirs[b.parse::<usize>().unwrap()].clone();
            let _ = std::fs::write(d.join(std::ffi::OsString::from_vec(unhex(name))), b"raw");
            "ok:unit".to_string()
        }
        ["xsymlink", b, name, target] => {
            let d = c.tmpdirs[b.parse::<usize>().unwrap()].clone();
            let n = String::from_utf8(unhex(name)).unwrap();
            let t = String::from_utf8(unhex(target)).unwrap();
            let _ = std::os::unix::fs::symlink(t, d.join(n));
            "ok:unit".to_string()
        }
        _ => "ok:unit".to_string(),
    }
}

fn aconfig_line(cur: &mut ACase, toks: &[&str]) -> bool {
    match toks {
        ["base", "mem"] => cur.bases.push(Some(Box::new(AsyncMemoryFS::new()))),
        ["base", "phys"] => {
            let n = COUNTER.fetch_add(1, Ordering::SeqCst);
            let d = std::env::temp_dir().join(format!("vfsxa_{}_{}", std::process::id(), n));
            let _ = std::fs::remove_dir_all(&d);
            std::fs::create_dir_all(&d).unwrap();
            cur.bases.push(Some(Box::new(AsyncPhysicalFS::new(&d))));
            cur.tmpdirs.push(d);
        }
        ["fs", "base", i] => { let b = cur.bases[i.parse::<usize>().unwrap()].take().unwrap(); let r = cur.wrap(b); cur.roots.push(r); }
        ["fs", "unit", i] => { let _ = cur.bases[i.parse::<usize>().unwrap()].take(); cur.roots.push(AsyncVfsPath::new(AsyncUnitFS)); }
        ["fs", "alt", j, p] => { let root = cur.path_of(j.parse().unwrap(), p); let r = cur.wrap(Box::new(AsyncAltrootFS::new(root))); cur.roots.push(r); }
        ["fs", "ovl", _n, rest @ ..] => {
            let mut layers = vec![];
            for ch in rest.chunks(2) { layers.push(cur.path_of(ch[0].parse().unwrap(), ch[1])); }
            let r = cur.wrap(Box::new(AsyncOverlayFS::new(&layers)));
            cur.roots.push(r);
        }
        _ => return false,
    }
    true
}

// ---------------------------------------------------------------------------------------------------------------
// `--aconc`: concurrent TASKS through the async API, interleaved at trait-call granularity by the scheduler above

struct AProgram { name: String, config: Vec<String>, setup: Vec<String>, threads: Vec<Vec<String>>, mode: String, arg: String }
struct ARun { choices: Vec<usize>, runnable: Vec<Vec<usize>>, labels: Vec<String>, results: Vec<Vec<String>>, snap: String, stuck: bool }

fn abuild(p: &AProgram) -> ACase {
    let mut c = ACase::new(&p.name, false);
    for l in &p.config {
        let toks: Vec<&str> = l.split(' ').collect();
        assert!(aconfig_line(&mut c, &toks), "bad config line {}", l);
    }
    for (i, l) in p.setup.iter().enumerate() {
        let toks: Vec<&str> = l.split(' ').collect();
        futures::executor::block_on(run_op(&mut c, 1000 + i, &toks));
    }
    c
}

fn arun_once(p: &AProgram, prefix: &[usize], sticky: bool) -> ARun {
    SCHED.with(|s| *s.borrow_mut() = None);
    let mut base = abuild(p);
    let n = p.threads.len();
    let mut tasks: Vec<Option<Pin<Box<dyn Future<Output = Vec<String>>>>>> = vec![];
    for t in 0..n {
        let ops = p.threads[t].clone();
        let mut c = ACase::new("t", false);
        c.roots = base.roots.clone();
        c.shared = base.shared.clone();
        c.set_times = base.set_times.clone();
        tasks.push(Some(Box::pin(async move {
            let mut out = vec![];
            for (i, l) in ops.iter().enumerate() {
                let toks: Vec<&str> = l.split(' ').collect();
                let r = futures::FutureExt::catch_unwind(std::panic::AssertUnwindSafe(run_op(&mut c, i, &toks))).await;
                out.push(r.unwrap_or_else(|_| "panic".to_string()));
            }
            out
        })));
    }
    SCHED.with(|s| *s.borrow_mut() = Some(ASched { cur: 0, granted: vec![false; n], at_gate: vec![None; n] }));
    let waker = futures::task::noop_waker();
    let mut cx = Context::from_waker(&waker);
    let mut results: Vec<Vec<String>> = vec![vec![]; n];
    let mut stuck = false;
    // drive task t until it waits at a gate or finishes
    let mut drive = |t: usize, tasks: &mut Vec<Option<Pin<Box<dyn Future<Output = Vec<String>>>>>>, results: &mut Vec<Vec<String>>, stuck: &mut bool| {
        SCHED.with(|s| s.borrow_mut().as_mut().unwrap().cur = t);
        let mut spins = 0;
        loop {
            let done = match tasks[t].as_mut() {
                None => true,
                Some(f) => match f.as_mut().poll(&mut cx) {
                    Poll::Ready(out) => { results[t] = out; true }
                    Poll::Pending => false,
                },
            };
            if done { tasks[t] = None; return; }
            let at_gate = SCHED.with(|s| s.borrow().as_ref().unwrap().at_gate[t].is_some());
            if at_gate { return; }
            spins += 1;
            if spins > 10000 { *stuck = true; return; }
        }
    };
    for t in 0..n { drive(t, &mut tasks, &mut results, &mut stuck); }
    let mut choices = vec![];
    let mut runnable_log = vec![];
    let mut labels = vec![];
    while !stuck {
        let runnable: Vec<usize> = (0..n).filter(|t| tasks[*t].is_some()).collect();
        if runnable.is_empty() { break; }
        let step = choices.len();
        let t = if step < prefix.len() && runnable.contains(&prefix[step]) { prefix[step] }
                else if sticky && !choices.is_empty() && runnable.contains(&choices[step - 1]) { choices[step - 1] }
                else { runnable[0] };
        let label = SCHED.with(|s| { let mut s = s.borrow_mut(); let sc = s.as_mut().unwrap(); sc.granted[t] = true; sc.at_gate[t].clone().unwrap_or_default() });
        labels.push(format!("{}:{}", t, label));
        choices.push(t);
        runnable_log.push(runnable);
        drive(t, &mut tasks, &mut results, &mut stuck);
    }
    drop(tasks);
    SCHED.with(|s| *s.borrow_mut() = None);
    let k = (base.roots.len() - 1).to_string();
    let snap = futures::executor::block_on(run_op(&mut base, 9999, &["snap", &k]));
    base.cleanup();
    ARun { choices, runnable: runnable_log, labels, results, snap, stuck }
}

fn aprint(p: &AProgram, r: &ARun) {
    let sch: Vec<String> = r.choices.iter().map(|c| c.to_string()).collect();
    if r.stuck {
        println!("run {} {} DEADLOCK labels {}", p.name, sch.join(","), r.labels.join(","));
        return;
    }
    let res = r.results.iter().map(|t| t.join(";")).collect::<Vec<_>>().join(" | ");
    println!("run {} {} labels {} :: {} || {}", p.name, sch.join(","), r.labels.join(","), res, r.snap);
}

fn arun_program(p: &AProgram) {
    if p.mode == "stress" {
        // free-running OS threads, each driving its own task to completion (block_on): the interleavings are the kernel's
        // and the runtime's - used where the async backend does real I/O (AsyncPhysicalFS)
        let rounds: usize = p.arg.split(',').next().and_then(|x| x.parse().ok()).unwrap_or(100);
        let mut bad = 0;
        let mut seen = std::collections::BTreeSet::new();
        for round in 0..rounds {
            SCHED.with(|s| *s.borrow_mut() = None);
            let mut base = abuild(p);
            let n = p.threads.len();
            let barrier = Arc::new(std::sync::Barrier::new(n));
            let mut joins = vec![];
            for t in 0..n {
                let ops = p.threads[t].clone();
                let roots = base.roots.clone();
                let shared = base.shared.clone();
                let set_times = base.set_times.clone();
                let b = barrier.clone();
                joins.push(std::thread::spawn(move || {
                    let mut c = ACase::new("t", false);
                    c.roots = roots;
                    c.shared = shared;
                    c.set_times = set_times;
                    b.wait();
                    let mut out = vec![];
                    for (i, l) in ops.iter().enumerate() {
                        let toks: Vec<&str> = l.split(' ').collect();
                        let r = std::panic::catch_unwind(std::panic::AssertUnwindSafe(|| futures::executor::block_on(run_op(&mut c, i, &toks))));
                        out.push(r.unwrap_or_else(|_| "panic".to_string()));
                    }
                    out
                }));
            }
            let res: Vec<Vec<String>> = joins.into_iter().map(|j| j.join().unwrap_or_else(|_| vec!["panic".to_string()])).collect();
            let k = (base.roots.len() - 1).to_string();
            let snap = futures::executor::block_on(run_op(&mut base, 9999, &["snap", &k]));
            base.cleanup();
            let all_ok = res.iter().all(|t| t.iter().all(|r| r.starts_with("ok")));
            let line = format!("{} || {}", res.iter().map(|t| t.join(";")).collect::<Vec<_>>().join(" | "), snap);
            let fresh = seen.insert(line.clone());
            if !all_ok || fresh {
                println!("run {} stress{} labels - :: {}", p.name, round, line);
            }
            if !all_ok { bad += 1; }
        }
        println!("done {} runs={} exhaustive=false sequential_orders=0 failed_rounds={}", p.name, rounds, bad);
        return;
    }
    if p.mode == "replay" {
        let prefix: Vec<usize> = p.arg.split(',').filter(|s| !s.is_empty()).map(|s| s.parse().unwrap()).collect();
        let r = arun_once(p, &prefix, false);
        aprint(p, &r);
        return;
    }
    // `pbound K,MAX`: every schedule with at most K preemptions; anything else: plain depth-first enumeration up to MAX runs
    let (k, maxruns) = if p.mode == "pbound" {
        let mut it = p.arg.split(',');
        (it.next().and_then(|x| x.parse().ok()).unwrap_or(2usize), it.next().and_then(|x| x.parse().ok()).unwrap_or(20000usize))
    } else {
        (usize::MAX, p.arg.parse().unwrap_or(2000))
    };
    let sticky = p.mode == "pbound";
    let mut stack: Vec<Vec<usize>> = vec![vec![]];
    let mut runs = 0;
    let mut exhausted = true;
    while let Some(prefix) = stack.pop() {
        if runs >= maxruns { exhausted = false; break; }
        let r = arun_once(p, &prefix, sticky);
        runs += 1;
        aprint(p, &r);
        if r.stuck { break; }
        let preempts = |ch: &[usize], upto: usize| -> usize {
            (1..upto).filter(|&j| ch[j] != ch[j - 1] && r.runnable[j].contains(&ch[j - 1])).count()
        };
        for i in prefix.len()..r.choices.len() {
            let before = if sticky { preempts(&r.choices, i) } else { 0 };
            for &alt in &r.runnable[i] {
                if alt != r.choices[i] {
                    let extra = if sticky && i > 0 && alt != r.choices[i - 1] && r.runnable[i].contains(&r.choices[i - 1]) { 1 } else { 0 };
                    if !sticky || before + extra <= k {
                        let mut np = r.choices[..i].to_vec();
                        np.push(alt);
                        stack.push(np);
                    }
                }
            }
        }
    }
    println!("done {} runs={} exhaustive={} sequential_orders=0", p.name, runs, exhausted);
}

pub fn main_conc(file: &str) {
    std::panic::set_hook(Box::new(|_| {}));
    let text = std::fs::read_to_string(file).unwrap();
    let mut cur: Option<AProgram> = None;
    let mut tid: Option<usize> = None;
    for line in text.lines() {
        let line = line.trim();
        if line.is_empty() || line.starts_with('#') { continue; }
        let (head, rest) = match line.find(' ') { Some(i) => (&line[..i], &line[i + 1..]), None => (line, "") };
        match head {
            "conc" => { cur = Some(AProgram { name: rest.to_string(), config: vec![], setup: vec![], threads: vec![], mode: "explore".into(), arg: "2000".into() }); tid = None; }
            "base" | "fs" => cur.as_mut().unwrap().config.push(line.to_string()),
            "setup" => cur.as_mut().unwrap().setup.push(rest.to_string()),
            "thread" => { cur.as_mut().unwrap().threads.push(vec![]); tid = Some(cur.as_ref().unwrap().threads.len() - 1); }
            "op" => cur.as_mut().unwrap().threads[tid.unwrap()].push(rest.to_string()),
            "mode" => { let mut it = rest.splitn(2, ' '); let p = cur.as_mut().unwrap(); p.mode = it.next().unwrap().to_string(); p.arg = it.next().unwrap_or("").to_string(); }
            "end" => { arun_program(cur.as_ref().unwrap()); cur = None; }
            _ => panic!("bad line {}", line),
        }
    }
}

/// `tokio` - a current-thread tokio runtime (the default); otherwise `futures::executor::block_on`, i.e. NO tokio runtime is
/// entered: code that reaches for one (spawn_blocking, Handle::current) must degrade to an error, not panic.
pub fn main(file: &str, pending: bool, tokio_rt: bool) {
    std::panic::set_hook(Box::new(|_| {}));
    let text = std::fs::read_to_string(file).unwrap();
    let fut = run_file(text, pending);
    if tokio_rt {
        let rt = tokio::runtime::Builder::new_current_thread().build().unwrap();
        rt.block_on(fut);
    } else {
        futures::executor::block_on(fut);
    }
}

async fn run_file(text: String, pending: bool) {
    {
        let mut cur = ACase::new("", pending);
        for line in text.lines() {
            let line = line.trim();
            if line.is_empty() || line.starts_with('#') { continue; }
            let toks: Vec<&str> = line.split(' ').collect();
            match toks.as_slice() {
                ["case", n] => { cur.cleanup(); cur = ACase::new(n, pending); }
                ["fuel", _] | ["embfile", ..] => {}
                t if aconfig_line(&mut cur, t) => {}
                ["op", rest @ ..] => {
                    let idx = cur.nops;
                    cur.nops += 1;
                    cur.shared.lock().unwrap().log.clear();
                    let s = match futures::FutureExt::catch_unwind(std::panic::AssertUnwindSafe(run_op(&mut cur, idx, rest))).await {
                        Ok(s) => s,
                        Err(_) => "panic".to_string(),
                    };
                    println!("r {} {} {}", cur.name, idx, s);
                    let sh = cur.shared.lock().unwrap();
                    if !sh.log.is_empty() {
                        let items: Vec<String> = sh.log.iter().map(|(id, m, p, q)| match q {
                            None => format!("{}:{}:{}", id, m, hex(p.as_bytes())),
                            Some(q) => format!("{}:{}:{}:{}", id, m, hex(p.as_bytes()), hex(q.as_bytes())),
                        }).collect();
                        println!("l {} {} {}", cur.name, idx, items.join(" "));
                    }
                }
                ["end"] => cur.cleanup(),
                _ => panic!("bad line {}", line),
            }
        }
        cur.cleanup();
    }
}


/// the async twin of wrappers::UnitFS: a zero-sized filesystem that refuses every call
#[derive(Debug)]
pub struct AsyncUnitFS;

#[async_trait]
impl AsyncFileSystem for AsyncUnitFS {
    async fn read_dir(&self, _path: &str) -> VfsResult<Box<dyn Unpin + Stream<Item = String> + Send>> {
        Err(vfs::error::VfsErrorKind::NotSupported.into())
    }
    async fn create_dir(&self, _path: &str) -> VfsResult<()> {
        Err(vfs::error::VfsErrorKind::NotSupported.into())
    }
    async fn open_file(&self, _path: &str) -> VfsResult<Box<dyn SeekAndRead + Send + Unpin>> {
        Err(vfs::error::VfsErrorKind::NotSupported.into())
    }
    async fn create_file(&self, _path: &str) -> VfsResult<Box<dyn Write + Send + Unpin>> {
        Err(vfs::error::VfsErrorKind::NotSupported.into())
    }
    async fn append_file(&self, _path: &str) -> VfsResult<Box<dyn Write + Send + Unpin>> {
        Err(vfs::error::VfsErrorKind::NotSupported.into())
    }
    async fn metadata(&self, _path: &str) -> VfsResult<VfsMetadata> {
        Err(vfs::error::VfsErrorKind::NotSupported.into())
    }
    async fn exists(&self, _path: &str) -> VfsResult<bool> {
        Err(vfs::error::VfsErrorKind::NotSupported.into())
    }
    async fn remove_file(&self, _path: &str) -> VfsResult<()> {
        Err(vfs::error::VfsErrorKind::NotSupported.into())
    }
    async fn remove_dir(&self, _path: &str) -> VfsResult<()> {
        Err(vfs::error::VfsErrorKind::NotSupported.into())
    }
}
