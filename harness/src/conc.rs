//! Concurrency explorer: runs small multi-threaded programs on MemoryFS (and adapters over it) under a
//! cooperative scheduler that serialises the threads at the `verif-hooks` yield points (one point before every
//! lock acquisition), enumerates ALL schedules by depth-first search over the scheduling choices, and also runs
//! every sequential interleaving of the whole calls (the reference set for linearizability).
use crate::{config_line, run_op, Case};
use std::collections::BTreeSet;
use std::sync::{Arc, Condvar, Mutex};
use std::time::Duration;

#[derive(Clone, PartialEq, Debug)]
enum St {
    Running,
    AtYield(&'static str),
    Done,
}

struct Sched {
    status: Vec<St>,
    turn: Option<usize>,
}

struct Program {
    name: String,
    config: Vec<String>,
    setup: Vec<String>,
    threads: Vec<Vec<String>>,
    mode: String,
    arg: String,
}

fn build(p: &Program) -> Case {
    let mut c = Case::new(&p.name, true);
    for l in &p.config {
        let toks: Vec<&str> = l.split(' ').collect();
        assert!(config_line(&mut c, &toks), "bad config line {}", l);
    }
    for (i, l) in p.setup.iter().enumerate() {
        let toks: Vec<&str> = l.split(' ').collect();
        run_op(&mut c, 1000 + i, &toks);
    }
    // the time values the threads will set: every thread's context (and the final snapshot) renders them as set values
    for th in &p.threads {
        for l in th {
            let toks: Vec<&str> = l.split(' ').collect();
            if let ["setctime", _, ns] | ["setmtime", _, ns] | ["setatime", _, ns] = toks.as_slice() {
                if let Ok(v) = ns.parse::<i128>() {
                    c.set_times.insert(v);
                }
            }
        }
    }
    c
}

fn final_snap(c: &mut Case) -> String {
    let k = (c.roots.len() - 1).to_string();
    run_op(c, 9999, &["snap", &k])
}

struct RunResult {
    choices: Vec<usize>,
    runnable: Vec<Vec<usize>>,
    labels: Vec<String>,
    results: Vec<Vec<String>>,
    snap: String,
    deadlock: bool,
}

/// one execution under the scheduler, following `prefix` and then always the lowest runnable thread
fn run_once(p: &Program, prefix: &[usize]) -> RunResult {
    run_once_with(p, prefix, false)
}

/// `sticky`: past the prefix keep running the thread that ran last while it is runnable (no preemption)
fn run_once_with(p: &Program, prefix: &[usize], sticky: bool) -> RunResult {
    let mut base = build(p);
    let n = p.threads.len();
    let sched = Arc::new((Mutex::new(Sched { status: vec![St::Running; n], turn: None }), Condvar::new()));
    let results: Arc<Mutex<Vec<Vec<String>>>> = Arc::new(Mutex::new(vec![vec![]; n]));
    let mut joins = vec![];
    for t in 0..n {
        let ops = p.threads[t].clone();
        let roots = base.roots.clone();
        let shared = base.shared.clone();
        let set_times = base.set_times.clone();
        // the handles the setup left open belong to the first thread
        let handles = if t == 0 { std::mem::take(&mut base.handles) } else { Default::default() };
        let sched2 = sched.clone();
        let results2 = results.clone();
        joins.push(std::thread::spawn(move || {
            let s3 = sched2.clone();
            vfs::verif_hooks::set_hook(Some(Box::new(move |label| {
                let (m, cv) = &*s3;
                let mut g = m.lock().unwrap();
                g.status[t] = St::AtYield(label);
                g.turn = None;
                cv.notify_all();
                while !(g.turn == Some(t)) {
                    g = cv.wait(g).unwrap();
                }
            })));
            let mut c = Case::new("t", true);
            c.roots = roots;
            c.shared = shared;
            c.set_times = set_times;
            c.handles = handles;
            let mut out = vec![];
            for (i, l) in ops.iter().enumerate() {
                let toks: Vec<&str> = l.split(' ').collect();
                let r = std::panic::catch_unwind(std::panic::AssertUnwindSafe(|| run_op(&mut c, i, &toks)));
                out.push(r.unwrap_or_else(|_| "panic".to_string()));
            }
            vfs::verif_hooks::set_hook(None);
            results2.lock().unwrap()[t] = out;
            drop(c);
            let (m, cv) = &*sched2;
            let mut g = m.lock().unwrap();
            g.status[t] = St::Done;
            g.turn = None;
            cv.notify_all();
        }));
    }
    let (m, cv) = &*sched;
    let mut choices = vec![];
    let mut runnable_log = vec![];
    let mut labels = vec![];
    let mut deadlock = false;
    loop {
        let mut g = m.lock().unwrap();
        // wait until nobody is running
        let mut waited = 0;
        while g.status.iter().any(|s| *s == St::Running) {
            let (g2, to) = cv.wait_timeout(g, Duration::from_millis(200)).unwrap();
            g = g2;
            if to.timed_out() {
                waited += 1;
                if waited > 50 {
                    deadlock = true;
                    break;
                }
            }
        }
        if deadlock {
            break;
        }
        let runnable: Vec<usize> = (0..n).filter(|t| matches!(g.status[*t], St::AtYield(_))).collect();
        if runnable.is_empty() {
            break;
        }
        let step = choices.len();
        let t = if step < prefix.len() && runnable.contains(&prefix[step]) {
            prefix[step]
        } else if sticky && !choices.is_empty() && runnable.contains(&choices[step - 1]) {
            choices[step - 1]
        } else {
            runnable[0]
        };
        if let St::AtYield(l) = &g.status[t] {
            labels.push(format!("{}:{}", t, l));
        }
        choices.push(t);
        runnable_log.push(runnable);
        g.status[t] = St::Running;
        g.turn = Some(t);
        cv.notify_all();
    }
    if deadlock {
        // leak the threads: the process exits after reporting
        return RunResult { choices, runnable: runnable_log, labels, results: vec![], snap: String::new(), deadlock };
    }
    for j in joins {
        let _ = j.join();
    }
    let res = results.lock().unwrap().clone();
    let snap = final_snap(&mut base);
    base.cleanup();
    RunResult { choices, runnable: runnable_log, labels, results: res, snap, deadlock }
}

fn fmt_results(r: &[Vec<String>]) -> String {
    r.iter().map(|t| t.join(";")).collect::<Vec<_>>().join(" | ")
}

/// every interleaving of the threads' whole calls, executed sequentially (no scheduler)
fn sequential(p: &Program, out: &mut BTreeSet<String>) {
    fn rec(p: &Program, pos: &mut Vec<usize>, order: &mut Vec<usize>, out: &mut BTreeSet<String>) {
        let n = p.threads.len();
        if (0..n).all(|t| pos[t] == p.threads[t].len()) {
            let mut base = build(p);
            let mut cs: Vec<Case> = (0..n)
                .map(|_| {
                    let mut c = Case::new("s", true);
                    c.roots = base.roots.clone();
                    c.shared = base.shared.clone();
                    c.set_times = base.set_times.clone();
                    c
                })
                .collect();
            if n > 0 {
                cs[0].handles = std::mem::take(&mut base.handles);
            }
            let mut res = vec![vec![]; n];
            let mut idx = vec![0usize; n];
            for &t in order.iter() {
                let l = &p.threads[t][idx[t]];
                let toks: Vec<&str> = l.split(' ').collect();
                let r = std::panic::catch_unwind(std::panic::AssertUnwindSafe(|| run_op(&mut cs[t], idx[t], &toks)));
                res[t].push(r.unwrap_or_else(|_| "panic".to_string()));
                idx[t] += 1;
            }
            drop(cs);
            let snap = final_snap(&mut base);
            base.cleanup();
            out.insert(format!("{} || {}", fmt_results(&res), snap));
            return;
        }
        for t in 0..n {
            if pos[t] < p.threads[t].len() {
                pos[t] += 1;
                order.push(t);
                rec(p, pos, order, out);
                order.pop();
                pos[t] -= 1;
            }
        }
    }
    let mut pos = vec![0; p.threads.len()];
    let mut order = vec![];
    rec(p, &mut pos, &mut order, out);
}

fn run_program(p: &Program) {
    if p.mode == "stress" {
        // free-running OS threads (no scheduler): used where the interleavings are the kernel's (PhysicalFS)
        let rounds: usize = p.arg.split(',').next().and_then(|x| x.parse().ok()).unwrap_or(100);
        let mut bad = 0;
        let mut seen: BTreeSet<String> = BTreeSet::new();
        for round in 0..rounds {
            let mut base = build(p);
            let n = p.threads.len();
            let barrier = Arc::new(std::sync::Barrier::new(n));
            let mut joins = vec![];
            for t in 0..n {
                let ops = p.threads[t].clone();
                let roots = base.roots.clone();
                let shared = base.shared.clone();
                let set_times = base.set_times.clone();
                let handles = if t == 0 { std::mem::take(&mut base.handles) } else { Default::default() };
                let b = barrier.clone();
                joins.push(std::thread::spawn(move || {
                    let mut c = Case::new("t", true);
                    c.roots = roots;
                    c.shared = shared;
                    c.set_times = set_times;
                    c.handles = handles;
                    b.wait();
                    let mut out = vec![];
                    for (i, l) in ops.iter().enumerate() {
                        let toks: Vec<&str> = l.split(' ').collect();
                        let r = std::panic::catch_unwind(std::panic::AssertUnwindSafe(|| run_op(&mut c, i, &toks)));
                        out.push(r.unwrap_or_else(|_| "panic".to_string()));
                    }
                    out
                }));
            }
            let res: Vec<Vec<String>> = joins.into_iter().map(|j| j.join().unwrap_or_else(|_| vec!["panic".to_string()])).collect();
            let snap = final_snap(&mut base);
            base.cleanup();
            let all_ok = res.iter().all(|t| t.iter().all(|r| r.starts_with("ok")));
            // every DISTINCT outcome is reported (so that it can be judged against the sequential orders), and every failing round
            let line = format!("{} || {}", fmt_results(&res), snap);
            let fresh = seen.insert(line.clone());
            if !all_ok || fresh {
                println!("run {} stress{} labels - :: {}", p.name, round, line);
            }
            if !all_ok {
                bad += 1;
            }
        }
        let mut nseq = 0;
        if p.arg.contains(",seq") {
            let mut seqs = BTreeSet::new();
            sequential(p, &mut seqs);
            for s in &seqs {
                println!("seq {} {}", p.name, s);
            }
            nseq = seqs.len();
        }
        println!("done {} runs={} exhaustive=false sequential_orders={} failed_rounds={}", p.name, rounds, nseq, bad);
        return;
    }
    if p.mode == "replay" {
        let prefix: Vec<usize> = p.arg.split(',').filter(|s| !s.is_empty()).map(|s| s.parse().unwrap()).collect();
        let r = run_once(p, &prefix);
        print_run(p, &r);
        return;
    }
    if p.mode == "pbound" {
        // every schedule with at most K preemptions (a switch away from a thread that could have continued)
        let mut it = p.arg.split(',');
        let k: usize = it.next().and_then(|x| x.parse().ok()).unwrap_or(2);
        let maxruns: usize = it.next().and_then(|x| x.parse().ok()).unwrap_or(20000);
        let mut stack: Vec<Vec<usize>> = vec![vec![]];
        let mut runs = 0;
        let mut exhausted = true;
        while let Some(prefix) = stack.pop() {
            if runs >= maxruns {
                exhausted = false;
                break;
            }
            let r = run_once_with(p, &prefix, true);
            runs += 1;
            print_run(p, &r);
            if r.deadlock {
                break;
            }
            let preempts = |ch: &[usize], upto: usize| -> usize {
                (1..upto).filter(|&j| ch[j] != ch[j - 1] && r.runnable[j].contains(&ch[j - 1])).count()
            };
            for i in prefix.len()..r.choices.len() {
                let before = preempts(&r.choices, i);
                for &alt in &r.runnable[i] {
                    if alt != r.choices[i] {
                        let extra = if i > 0 && alt != r.choices[i - 1] && r.runnable[i].contains(&r.choices[i - 1]) { 1 } else { 0 };
                        if before + extra <= k {
                            let mut np = r.choices[..i].to_vec();
                            np.push(alt);
                            stack.push(np);
                        }
                    }
                }
            }
        }
        let mut seqs = BTreeSet::new();
        sequential(p, &mut seqs);
        for s in &seqs {
            println!("seq {} {}", p.name, s);
        }
        println!("done {} runs={} exhaustive={} preemption_bound={} sequential_orders={}", p.name, runs, exhausted, k, seqs.len());
        return;
    }
    let maxruns: usize = p.arg.parse().unwrap_or(2000);
    let mut stack: Vec<Vec<usize>> = vec![vec![]];
    let mut runs = 0;
    let mut exhausted = true;
    while let Some(prefix) = stack.pop() {
        if runs >= maxruns {
            exhausted = false;
            break;
        }
        let r = run_once(p, &prefix);
        runs += 1;
        print_run(p, &r);
        if r.deadlock {
            break;
        }
        for i in prefix.len()..r.choices.len() {
            for &alt in &r.runnable[i] {
                if alt != r.choices[i] {
                    let mut np = r.choices[..i].to_vec();
                    np.push(alt);
                    stack.push(np);
                }
            }
        }
    }
    let mut seqs = BTreeSet::new();
    sequential(p, &mut seqs);
    for s in &seqs {
        println!("seq {} {}", p.name, s);
    }
    println!("done {} runs={} exhaustive={} sequential_orders={}", p.name, runs, exhausted, seqs.len());
}

fn print_run(p: &Program, r: &RunResult) {
    let sch: Vec<String> = r.choices.iter().map(|c| c.to_string()).collect();
    if r.deadlock {
        println!("run {} {} DEADLOCK labels {}", p.name, sch.join(","), r.labels.join(","));
        return;
    }
    println!("run {} {} labels {} :: {} || {}", p.name, sch.join(","), r.labels.join(","), fmt_results(&r.results), r.snap);
}

pub fn main(file: &str) {
    std::panic::set_hook(Box::new(|_| {}));
    let text = std::fs::read_to_string(file).unwrap();
    let mut cur: Option<Program> = None;
    let mut tid: Option<usize> = None;
    for line in text.lines() {
        let line = line.trim();
        if line.is_empty() || line.starts_with('#') {
            continue;
        }
        let (head, rest) = match line.find(' ') {
            Some(i) => (&line[..i], &line[i + 1..]),
            None => (line, ""),
        };
        match head {
            "conc" => {
                cur = Some(Program { name: rest.to_string(), config: vec![], setup: vec![], threads: vec![], mode: "explore".into(), arg: "2000".into() });
                tid = None;
            }
            "base" | "fs" => cur.as_mut().unwrap().config.push(line.to_string()),
            "setup" => cur.as_mut().unwrap().setup.push(rest.to_string()),
            "thread" => {
                cur.as_mut().unwrap().threads.push(vec![]);
                tid = Some(cur.as_ref().unwrap().threads.len() - 1);
            }
            "op" => cur.as_mut().unwrap().threads[tid.unwrap()].push(rest.to_string()),
            "mode" => {
                let mut it = rest.splitn(2, ' ');
                let p = cur.as_mut().unwrap();
                p.mode = it.next().unwrap().to_string();
                p.arg = it.next().unwrap_or("").to_string();
            }
            "end" => {
                run_program(cur.as_ref().unwrap());
                cur = None;
            }
            _ => panic!("bad line {}", line),
        }
    }
}
