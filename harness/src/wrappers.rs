//! Public-trait wrappers used by the harness: every instance is wrapped in a `HarnessFS`
//! that (optionally) sorts listings, records calls and injects one I/O error.
use std::sync::{Arc, Mutex};
use std::time::SystemTime;
use vfs::error::VfsErrorKind;
use vfs::{FileSystem, SeekAndRead, SeekAndWrite, VfsMetadata, VfsResult};

#[derive(Default, Debug)]
pub struct Shared {
    /// (wrapper id, method, path, optional second path)
    pub log: Vec<(usize, &'static str, String, Option<String>)>,
    /// (wrapper id, number of calls still to let pass)
    pub fault: Option<(usize, usize)>,
    /// armed: bit 0 - reads fail, bit 1 - writes and flushes fail, on every handle handed out by a wrapper
    pub io_fault: u8,
}

fn injected_io() -> std::io::Error {
    std::io::Error::new(std::io::ErrorKind::Other, "injected handle fault")
}

/// every handle a wrapper hands out: while the I/O fault is armed its reads / writes / flushes fail (seek passes)
pub struct FaultyHandle<T: ?Sized> {
    pub shared: Arc<Mutex<Shared>>,
    pub inner: Box<T>,
}

impl<T: ?Sized> FaultyHandle<T> {
    fn armed(&self, bit: u8) -> bool {
        self.shared.lock().unwrap().io_fault & bit != 0
    }
}

impl std::io::Read for FaultyHandle<dyn SeekAndRead + Send> {
    fn read(&mut self, buf: &mut [u8]) -> std::io::Result<usize> {
        if self.armed(1) {
            return Err(injected_io());
        }
        self.inner.read(buf)
    }
    // the provided methods are forwarded too, so that an implementation's own overrides stay in the picture
    fn read_to_end(&mut self, buf: &mut Vec<u8>) -> std::io::Result<usize> {
        if self.armed(1) {
            return Err(injected_io());
        }
        self.inner.read_to_end(buf)
    }
    fn read_to_string(&mut self, buf: &mut String) -> std::io::Result<usize> {
        if self.armed(1) {
            return Err(injected_io());
        }
        self.inner.read_to_string(buf)
    }
    fn read_exact(&mut self, buf: &mut [u8]) -> std::io::Result<()> {
        if self.armed(1) {
            return Err(injected_io());
        }
        self.inner.read_exact(buf)
    }
}
impl std::io::Seek for FaultyHandle<dyn SeekAndRead + Send> {
    fn seek(&mut self, pos: std::io::SeekFrom) -> std::io::Result<u64> {
        self.inner.seek(pos)
    }
}
impl std::io::Write for FaultyHandle<dyn SeekAndWrite + Send> {
    fn write(&mut self, buf: &[u8]) -> std::io::Result<usize> {
        if self.armed(2) {
            return Err(injected_io());
        }
        self.inner.write(buf)
    }
    fn flush(&mut self) -> std::io::Result<()> {
        if self.armed(2) {
            return Err(injected_io());
        }
        self.inner.flush()
    }
    fn write_all(&mut self, buf: &[u8]) -> std::io::Result<()> {
        if self.armed(2) {
            return Err(injected_io());
        }
        self.inner.write_all(buf)
    }
}
impl std::io::Seek for FaultyHandle<dyn SeekAndWrite + Send> {
    fn seek(&mut self, pos: std::io::SeekFrom) -> std::io::Result<u64> {
        self.inner.seek(pos)
    }
}

#[derive(Debug)]
pub struct HarnessFS {
    pub inner: Box<dyn FileSystem>,
    pub sort: bool,
    /// Some(id): record calls and consult the fault plan
    pub wrap_id: Option<usize>,
    pub shared: Arc<Mutex<Shared>>,
}

impl HarnessFS {
    fn enter(&self, method: &'static str, p: &str, q: Option<&str>) -> VfsResult<()> {
        if let Some(id) = self.wrap_id {
            let mut sh = self.shared.lock().unwrap();
            sh.log.push((id, method, p.to_string(), q.map(|s| s.to_string())));
            if let Some((fid, k)) = sh.fault {
                if fid == id {
                    if k == 0 {
                        sh.fault = None;
                        return Err(VfsErrorKind::IoError(std::io::Error::new(
                            std::io::ErrorKind::Other,
                            "injected fault",
                        ))
                        .into());
                    }
                    sh.fault = Some((fid, k - 1));
                }
            }
        }
        Ok(())
    }
}

impl FileSystem for HarnessFS {
    fn read_dir(&self, path: &str) -> VfsResult<Box<dyn Iterator<Item = String> + Send>> {
        self.enter("read_dir", path, None)?;
        let it = self.inner.read_dir(path)?;
        if self.sort {
            let mut v: Vec<String> = it.collect();
            v.sort_by(|a, b| a.as_bytes().cmp(b.as_bytes()));
            Ok(Box::new(v.into_iter()))
        } else {
            Ok(it)
        }
    }
    fn create_dir(&self, path: &str) -> VfsResult<()> {
        self.enter("create_dir", path, None)?;
        self.inner.create_dir(path)
    }
    fn open_file(&self, path: &str) -> VfsResult<Box<dyn SeekAndRead + Send>> {
        self.enter("open_file", path, None)?;
        let inner = self.inner.open_file(path)?;
        Ok(Box::new(FaultyHandle { shared: self.shared.clone(), inner }))
    }
    fn create_file(&self, path: &str) -> VfsResult<Box<dyn SeekAndWrite + Send>> {
        self.enter("create_file", path, None)?;
        let inner = self.inner.create_file(path)?;
        Ok(Box::new(FaultyHandle { shared: self.shared.clone(), inner }))
    }
    fn append_file(&self, path: &str) -> VfsResult<Box<dyn SeekAndWrite + Send>> {
        self.enter("append_file", path, None)?;
        let inner = self.inner.append_file(path)?;
        Ok(Box::new(FaultyHandle { shared: self.shared.clone(), inner }))
    }
    fn metadata(&self, path: &str) -> VfsResult<VfsMetadata> {
        self.enter("metadata", path, None)?;
        self.inner.metadata(path)
    }
    fn set_creation_time(&self, path: &str, time: SystemTime) -> VfsResult<()> {
        self.enter("set_creation_time", path, None)?;
        self.inner.set_creation_time(path, time)
    }
    fn set_modification_time(&self, path: &str, time: SystemTime) -> VfsResult<()> {
        self.enter("set_modification_time", path, None)?;
        self.inner.set_modification_time(path, time)
    }
    fn set_access_time(&self, path: &str, time: SystemTime) -> VfsResult<()> {
        self.enter("set_access_time", path, None)?;
        self.inner.set_access_time(path, time)
    }
    fn exists(&self, path: &str) -> VfsResult<bool> {
        self.enter("exists", path, None)?;
        self.inner.exists(path)
    }
    fn remove_file(&self, path: &str) -> VfsResult<()> {
        self.enter("remove_file", path, None)?;
        self.inner.remove_file(path)
    }
    fn remove_dir(&self, path: &str) -> VfsResult<()> {
        self.enter("remove_dir", path, None)?;
        self.inner.remove_dir(path)
    }
    fn copy_file(&self, src: &str, dest: &str) -> VfsResult<()> {
        self.enter("copy_file", src, Some(dest))?;
        self.inner.copy_file(src, dest)
    }
    fn move_file(&self, src: &str, dest: &str) -> VfsResult<()> {
        self.enter("move_file", src, Some(dest))?;
        self.inner.move_file(src, dest)
    }
    fn move_dir(&self, src: &str, dest: &str) -> VfsResult<()> {
        self.enter("move_dir", src, Some(dest))?;
        self.inner.move_dir(src, dest)
    }
}


/// A filesystem without any state: a zero-sized type (a `Box` of it does not allocate).  Every call is refused.
#[derive(Debug)]
pub struct UnitFS;

impl FileSystem for UnitFS {
    fn read_dir(&self, _path: &str) -> VfsResult<Box<dyn Iterator<Item = String> + Send>> {
        Err(vfs::error::VfsErrorKind::NotSupported.into())
    }
    fn create_dir(&self, _path: &str) -> VfsResult<()> {
        Err(vfs::error::VfsErrorKind::NotSupported.into())
    }
    fn open_file(&self, _path: &str) -> VfsResult<Box<dyn vfs::SeekAndRead + Send>> {
        Err(vfs::error::VfsErrorKind::NotSupported.into())
    }
    fn create_file(&self, _path: &str) -> VfsResult<Box<dyn vfs::SeekAndWrite + Send>> {
        Err(vfs::error::VfsErrorKind::NotSupported.into())
    }
    fn append_file(&self, _path: &str) -> VfsResult<Box<dyn vfs::SeekAndWrite + Send>> {
        Err(vfs::error::VfsErrorKind::NotSupported.into())
    }
    fn metadata(&self, _path: &str) -> VfsResult<vfs::VfsMetadata> {
        Err(vfs::error::VfsErrorKind::NotSupported.into())
    }
    fn exists(&self, _path: &str) -> VfsResult<bool> {
        Err(vfs::error::VfsErrorKind::NotSupported.into())
    }
    fn remove_file(&self, _path: &str) -> VfsResult<()> {
        Err(vfs::error::VfsErrorKind::NotSupported.into())
    }
    fn remove_dir(&self, _path: &str) -> VfsResult<()> {
        Err(vfs::error::VfsErrorKind::NotSupported.into())
    }
}
