//! Canonical text forms shared with the OCaml driver of the model.
use std::collections::HashSet;
use std::time::{Duration, SystemTime, UNIX_EPOCH};
use vfs::error::VfsErrorKind;
use vfs::{VfsError, VfsFileType, VfsMetadata};

pub fn hex(b: &[u8]) -> String {
    if b.is_empty() {
        return "-".to_string();
    }
    let mut s = String::with_capacity(b.len() * 2);
    for x in b {
        s.push_str(&format!("{:02x}", x));
    }
    s
}
pub fn unhex(s: &str) -> Vec<u8> {
    if s == "-" {
        return vec![];
    }
    (0..s.len() / 2)
        .map(|i| u8::from_str_radix(&s[2 * i..2 * i + 2], 16).unwrap())
        .collect()
}

pub fn kind_s(k: &VfsErrorKind) -> &'static str {
    match k {
        VfsErrorKind::IoError(_) => "Io",
        VfsErrorKind::AsyncIoError(_) => "Io",
        VfsErrorKind::FileNotFound => "NotFound",
        VfsErrorKind::InvalidPath => "InvalidPath",
        VfsErrorKind::Other(_) => "Other",
        VfsErrorKind::DirectoryExists => "DirExists",
        VfsErrorKind::FileExists => "FileExists",
        VfsErrorKind::NotSupported => "NotSupported",
    }
}
pub fn epath_s(p: &str) -> String {
    if p == "PATH NOT FILLED BY VFS LAYER" {
        "U".to_string()
    } else {
        format!("P{}", hex(p.as_bytes()))
    }
}
pub fn err_s(e: &VfsError) -> String {
    format!("{}:{}", kind_s(e.kind()), epath_s(e.path()))
}

pub fn time_from_ns(ns: i128) -> SystemTime {
    if ns >= 0 {
        UNIX_EPOCH + Duration::new((ns / 1_000_000_000) as u64, (ns % 1_000_000_000) as u32)
    } else {
        let a = -ns;
        UNIX_EPOCH - Duration::new((a / 1_000_000_000) as u64, (a % 1_000_000_000) as u32)
    }
}
pub fn ns_of_time(t: SystemTime) -> i128 {
    match t.duration_since(UNIX_EPOCH) {
        Ok(d) => d.as_nanos() as i128,
        Err(e) => -(e.duration().as_nanos() as i128),
    }
}
/// a timestamp prints as `set:<ns>` when it is one of the values the case set explicitly
pub fn time_s(t: Option<SystemTime>, set: &HashSet<i128>) -> String {
    match t {
        None => "none".to_string(),
        Some(t) => {
            let ns = ns_of_time(t);
            if set.contains(&ns) {
                format!("set:{}", ns)
            } else {
                "auto".to_string()
            }
        }
    }
}
pub fn meta_s(m: &VfsMetadata, set: &HashSet<i128>) -> String {
    format!(
        "meta:{}:{}:{}:{}:{}",
        match m.file_type {
            VfsFileType::File => "file",
            VfsFileType::Directory => "dir",
        },
        m.len,
        time_s(m.created, set),
        time_s(m.modified, set),
        time_s(m.accessed, set)
    )
}
